//! Concrete, replayable description of a simulated run: configuration, operations with concrete
//! arguments, fault plan.  Replay executes a `Trace`, never the generator, so every
//! sub-sequence of a trace is again a valid trace (which is what makes shrinking sound).

use crate::stubs::{FuseKind, HashMode};
use serde::{Deserialize, Serialize};

#[derive(Clone, Debug, PartialEq, Eq, Serialize, Deserialize)]
pub enum Ctor {
    WithHasher,
    WithCapacityAndHasher(usize),
}

#[derive(Clone, Debug, PartialEq, Eq, Serialize, Deserialize)]
pub struct Config {
    pub ctor: Ctor,
    pub mode: HashMode,
    pub salt: u64,
    pub max_size: usize,
    pub universe: u32,
    /// keys 0..prefill are inserted (unchecked) before the history starts
    #[serde(default)]
    pub prefill: u32,
    #[serde(default)]
    pub prefill_vh: usize,
    /// number of unchecked churn operations (FIFO inserts, growing/shrinking mutates, gets) executed
    /// on cache 0 before the checked history: "however long the history"
    #[serde(default)]
    pub marathon: u32,
}

#[derive(Clone, Copy, Debug, PartialEq, Eq, Hash, Serialize, Deserialize, PartialOrd, Ord)]
pub enum IterKind {
    Iter,
    Keys,
    Values,
    Drain,
    IntoIter,
    IntoKeys,
    IntoValues,
}

pub const ALL_ITER_KINDS: [IterKind; 7] = [
    IterKind::Iter,
    IterKind::Keys,
    IterKind::Values,
    IterKind::Drain,
    IterKind::IntoIter,
    IterKind::IntoKeys,
    IterKind::IntoValues,
];

impl IterKind {
    pub fn borrowing(self) -> bool {
        matches!(self, IterKind::Iter | IterKind::Keys | IterKind::Values)
    }
    pub fn consumes_cache(self) -> bool {
        matches!(self, IterKind::IntoIter | IterKind::IntoKeys | IterKind::IntoValues)
    }
    pub fn name(self) -> &'static str {
        match self {
            IterKind::Iter => "iter",
            IterKind::Keys => "keys",
            IterKind::Values => "values",
            IterKind::Drain => "drain",
            IterKind::IntoIter => "into_iter",
            IterKind::IntoKeys => "into_keys",
            IterKind::IntoValues => "into_values",
        }
    }
}

#[derive(Clone, Copy, Debug, PartialEq, Eq, Hash, Serialize, Deserialize)]
pub enum EndMode {
    Drop,
    Forget,
    /// the caller's loop body panics while the iterator is alive: the iterator's Drop runs
    /// during unwinding (`std::thread::panicking()` is true)
    PanicDrop,
    /// consume the rest with `Iterator::count()`
    Count,
    /// consume the rest with `Iterator::last()`
    Last,
    /// consume the rest with `Iterator::fold()`, collecting the items
    Fold,
    /// consume the rest with `DoubleEndedIterator::rfold()`, collecting the items
    RFold,
}

#[derive(Clone, Copy, Debug, PartialEq, Eq, Hash, Serialize, Deserialize)]
pub enum ClosurePanic {
    No,
    /// panic before the closure changed the value
    Before,
    /// panic after the closure changed the value
    After,
}

#[derive(Clone, Debug, PartialEq, Eq, Hash, Serialize, Deserialize)]
pub enum OpKind {
    Insert { k: u32, kh: usize, vh: usize },
    TryInsert { k: u32, kh: usize, vh: usize },
    Get { k: u32, owned: bool },
    GetEntry { k: u32, owned: bool },
    Touch { k: u32, owned: bool },
    GetLru,
    Peek { k: u32, owned: bool },
    PeekEntry { k: u32, owned: bool },
    Contains { k: u32, owned: bool },
    PeekLru,
    PeekMru,
    Remove { k: u32, owned: bool },
    RemoveEntry { k: u32, owned: bool },
    RemoveLru,
    RemoveMru,
    /// closure sets the value's reported heap size to `vh`
    Mutate { k: u32, owned: bool, vh: usize, panic: ClosurePanic },
    SetMaxSize { m: usize },
    /// keep[i] is the predicate's answer for the i-th visited entry (true beyond the vector)
    Retain { keep: Vec<bool>, panic_at: Option<u32> },
    Clear,
    Reserve { a: usize },
    TryReserve { a: usize, refuse: bool },
    ShrinkTo { c: usize },
    ShrinkToFit,
    /// clone the target cache into the other slot (dropping what was there)
    CloneTo,
    /// script[i] == true: next(), false: next_back()
    /// `skips[i] == k > 0`: the i-th call is `nth(k)` / `nth_back(k)` instead of `next()` / `next_back()`
    IterScript {
        kind: IterKind,
        script: Vec<bool>,
        end: EndMode,
        #[serde(default, skip_serializing_if = "Vec::is_empty")]
        skips: Vec<u8>,
    },
    /// `other.clone_from(&target)` (falls back to `clone` when the other slot is empty)
    CloneFrom,
    DebugFmt,
    /// len, is_empty, current_size, max_size, capacity, hasher
    Getters,
    /// drop the target cache (slot 0 is re-created fresh, slot 1 becomes empty)
    DropCache,
    /// the same, but the cache is dropped by an unwinding panic of the caller
    DropCacheUnwinding,
}

impl OpKind {
    pub fn name(&self) -> &'static str {
        match self {
            OpKind::Insert { .. } => "insert",
            OpKind::TryInsert { .. } => "try_insert",
            OpKind::Get { .. } => "get",
            OpKind::GetEntry { .. } => "get_entry",
            OpKind::Touch { .. } => "touch",
            OpKind::GetLru => "get_lru",
            OpKind::Peek { .. } => "peek",
            OpKind::PeekEntry { .. } => "peek_entry",
            OpKind::Contains { .. } => "contains",
            OpKind::PeekLru => "peek_lru",
            OpKind::PeekMru => "peek_mru",
            OpKind::Remove { .. } => "remove",
            OpKind::RemoveEntry { .. } => "remove_entry",
            OpKind::RemoveLru => "remove_lru",
            OpKind::RemoveMru => "remove_mru",
            OpKind::Mutate { .. } => "mutate",
            OpKind::SetMaxSize { .. } => "set_max_size",
            OpKind::Retain { .. } => "retain",
            OpKind::Clear => "clear",
            OpKind::Reserve { .. } => "reserve",
            OpKind::TryReserve { .. } => "try_reserve",
            OpKind::ShrinkTo { .. } => "shrink_to",
            OpKind::ShrinkToFit => "shrink_to_fit",
            OpKind::CloneTo => "clone",
            OpKind::CloneFrom => "clone_from",
            OpKind::IterScript { kind, .. } => kind.name(),
            OpKind::DebugFmt => "debug_fmt",
            OpKind::Getters => "getters",
            OpKind::DropCache => "drop",
            OpKind::DropCacheUnwinding => "drop (while unwinding)",
        }
    }

    /// operations available through `&LruCache` (C19)
    pub fn is_shared_ref_op(&self) -> bool {
        match self {
            OpKind::Peek { .. }
            | OpKind::PeekEntry { .. }
            | OpKind::Contains { .. }
            | OpKind::PeekLru
            | OpKind::PeekMru
            | OpKind::DebugFmt
            | OpKind::Getters
            | OpKind::CloneTo
            | OpKind::CloneFrom => true,
            OpKind::IterScript { kind, .. } => kind.borrowing(),
            _ => false,
        }
    }

    pub fn is_clone(&self) -> bool {
        matches!(self, OpKind::CloneTo | OpKind::CloneFrom)
    }

    pub fn is_capacity_op(&self) -> bool {
        matches!(
            self,
            OpKind::Reserve { .. } | OpKind::TryReserve { .. } | OpKind::ShrinkTo { .. } | OpKind::ShrinkToFit
        )
    }
}

#[derive(Clone, Debug, PartialEq, Eq, Hash, Serialize, Deserialize)]
pub struct Op {
    /// cache slot 0 or 1
    pub target: u8,
    pub kind: OpKind,
    /// fault: panic at the n-th callback of this kind during the op
    #[serde(default, skip_serializing_if = "Option::is_none")]
    pub fuse: Option<(FuseKind, u32)>,
}

#[derive(Clone, Debug, PartialEq, Eq, Serialize, Deserialize)]
pub struct Trace {
    /// property whose check produced the trace
    pub property: String,
    /// violation class the replay must reproduce (set when written as a replay file)
    #[serde(default)]
    pub violation: Option<String>,
    #[serde(default)]
    pub message: Option<String>,
    pub verif_seed: u64,
    pub run_index: u64,
    pub run_seed: u64,
    /// "normal" | "panic" | "forget"
    pub mode: String,
    pub config: Config,
    pub ops: Vec<Op>,
    /// "asan" | "miri": the trace must be replayed under that sanitizer
    #[serde(default, skip_serializing_if = "Option::is_none")]
    pub sanitizer: Option<String>,
    #[serde(default, skip_serializing_if = "Option::is_none")]
    pub tier: Option<String>,
    /// build variant that found the violation: "checked" (overflow checks + debug assertions) or
    /// "userlike" (a plain release build); the replay runs in the same variant
    #[serde(default, skip_serializing_if = "Option::is_none")]
    pub build: Option<String>,
}

pub fn fmt_op(op: &Op) -> String {
    let mut s = format!("c{}.{:?}", op.target, op.kind);
    if let Some((k, n)) = op.fuse {
        s.push_str(&format!(" !{}#{}", k.name(), n));
    }
    s
}
