//! Seeded workload generation, swarm style: per-run configuration and op-mix, and
//! state-dependent boundary arguments (exact fit, one over, needs-j-evictions, ...).

use crate::check::fresh_capacity;
use crate::obs::Obs;
use crate::ops::*;
use crate::prng::Rng;
use crate::stubs::HashMode;

pub const N_CAT: usize = 30;
pub const CAT_INSERT: usize = 0;
pub const CAT_TRY_INSERT: usize = 1;
pub const CAT_GET: usize = 2;
pub const CAT_GET_ENTRY: usize = 3;
pub const CAT_TOUCH: usize = 4;
pub const CAT_GET_LRU: usize = 5;
pub const CAT_PEEK: usize = 6;
pub const CAT_PEEK_ENTRY: usize = 7;
pub const CAT_CONTAINS: usize = 8;
pub const CAT_PEEK_LRU: usize = 9;
pub const CAT_PEEK_MRU: usize = 10;
pub const CAT_REMOVE: usize = 11;
pub const CAT_REMOVE_ENTRY: usize = 12;
pub const CAT_REMOVE_LRU: usize = 13;
pub const CAT_REMOVE_MRU: usize = 14;
pub const CAT_MUTATE: usize = 15;
pub const CAT_SET_MAX: usize = 16;
pub const CAT_RETAIN: usize = 17;
pub const CAT_CLEAR: usize = 18;
pub const CAT_RESERVE: usize = 19;
pub const CAT_TRY_RESERVE: usize = 20;
pub const CAT_SHRINK_TO: usize = 21;
pub const CAT_SHRINK_FIT: usize = 22;
pub const CAT_CLONE: usize = 23;
pub const CAT_ITER_BORROW: usize = 24;
pub const CAT_DRAIN: usize = 25;
pub const CAT_ITER_OWNING: usize = 26;
pub const CAT_DEBUG: usize = 27;
pub const CAT_GETTERS: usize = 28;
pub const CAT_DROP: usize = 29;

pub const BASE_WEIGHTS: [u32; N_CAT] = [
    30, 8, 8, 4, 4, 3, 4, 3, 3, 2, 2, 5, 3, 3, 2, 10, 4, 3, 1, 2, 2, 2, 1, 2, 3, 1, 1, 1, 1, 1,
];

/// Largest heap size a generated key or value reports (keeps every sum below usize::MAX).
pub const HEAP_CAP: usize = 1 << 40;

#[derive(Clone, Debug)]
pub struct Profile {
    pub weights: [u32; N_CAT],
    /// probability (percent) that an allocator refusal is injected into a try_reserve
    pub refuse_pct: u32,
    /// allow arguments that make the real allocator fail (huge but not overflowing)
    pub natural_oom: bool,
    pub min_steps: usize,
    pub max_steps: usize,
    /// percent of runs with a large universe / prefilled cache
    pub large_pct: u32,
    pub large_prefill: u32,
    /// one in `giant_div` of the large runs is a giant one (beyond 2^16 entries)
    pub giant_div: u64,
    /// one in `marathon_div` of the FIFO-churn runs starts with a marathon (see Config::marathon)
    pub marathon_div: u64,
}

pub fn profile_for(prop: &str, thorough: bool) -> Profile {
    let mut w = BASE_WEIGHTS;
    let mut p = Profile { weights: w, refuse_pct: 0, natural_oom: false, min_steps: 5, max_steps: 40, large_pct: 0, large_prefill: 0, giant_div: if thorough { 100 } else { 25 }, marathon_div: if thorough { 800 } else { 200 } };
    let mul = |w: &mut [u32; N_CAT], cats: &[usize], m: u32| {
        for &c in cats {
            w[c] = w[c].max(1) * m;
        }
    };
    match prop {
        "C01" => {
            mul(&mut w, &[CAT_MUTATE, CAT_SET_MAX], 3);
            mul(&mut w, &[CAT_INSERT], 2);
        }
        "C02" => {
            mul(&mut w, &[CAT_MUTATE], 3);
            mul(&mut w, &[CAT_REMOVE, CAT_REMOVE_LRU, CAT_RETAIN, CAT_DRAIN, CAT_CLEAR, CAT_CLONE], 2);
        }
        "C03" => {
            mul(&mut w, &[CAT_MUTATE, CAT_SET_MAX], 3);
            mul(&mut w, &[CAT_GET, CAT_TOUCH], 2);
        }
        "C04" => {
            mul(&mut w, &[CAT_REMOVE, CAT_REMOVE_ENTRY, CAT_PEEK, CAT_CONTAINS, CAT_GET, CAT_RESERVE, CAT_SHRINK_TO, CAT_SHRINK_FIT], 2);
        }
        "C05" => {
            mul(&mut w, &[CAT_GET, CAT_GET_ENTRY, CAT_TOUCH, CAT_GET_LRU, CAT_PEEK, CAT_PEEK_LRU, CAT_PEEK_MRU, CAT_DEBUG, CAT_TRY_INSERT], 3);
        }
        "C06" => {
            mul(&mut w, &[CAT_ITER_OWNING, CAT_DRAIN, CAT_CLEAR, CAT_RETAIN, CAT_CLONE], 4);
            w[CAT_DROP] = 2;
            mul(&mut w, &[CAT_TRY_RESERVE, CAT_RESERVE, CAT_SHRINK_TO], 2);
            p.refuse_pct = 25;
            p.natural_oom = true;
        }
        "C07" => {
            mul(&mut w, &[CAT_RESERVE, CAT_TRY_RESERVE, CAT_SHRINK_TO, CAT_SHRINK_FIT], 6);
            p.large_pct = if thorough { 3 } else { 1 };
            p.large_prefill = if thorough { 3000 } else { 1200 };
        }
        "C10" => {
            mul(&mut w, &[CAT_TRY_INSERT], 8);
            mul(&mut w, &[CAT_INSERT], 2);
        }
        "C11" => {
            mul(&mut w, &[CAT_MUTATE], 8);
        }
        "C12" => {
            mul(&mut w, &[CAT_ITER_BORROW, CAT_DRAIN, CAT_ITER_OWNING], 10);
        }
        "C13" => {
            mul(&mut w, &[CAT_RESERVE, CAT_TRY_RESERVE, CAT_SHRINK_TO, CAT_SHRINK_FIT], 8);
            p.refuse_pct = 35;
            p.natural_oom = true;
            p.max_steps = 60;
        }
        "C14" => {
            mul(&mut w, &[CAT_CLONE], 8);
        }
        "C15" => {
            mul(&mut w, &[CAT_RETAIN], 12);
        }
        "C19" => {
            mul(&mut w, &[CAT_PEEK, CAT_PEEK_ENTRY, CAT_CONTAINS, CAT_PEEK_LRU, CAT_PEEK_MRU, CAT_ITER_BORROW, CAT_DEBUG, CAT_GETTERS, CAT_CLONE], 5);
        }
        "C20" => {
            p.large_pct = if thorough { 3 } else { 1 };
            p.large_prefill = if thorough { 3000 } else { 1200 };
        }
        _ => {}
    }
    p.weights = w;
    p
}

/// Per-run generation state (size classes, recently departed keys).
pub struct GenState {
    pub kheaps: Vec<usize>,
    pub vheaps: Vec<usize>,
    pub weights: [u32; N_CAT],
    pub recent_gone: Vec<u32>,
    pub two_caches: bool,
    pub refuse_pct: u32,
    pub natural_oom: bool,
    /// next never-used key id (FIFO-style workloads insert ever-new keys)
    pub fresh_next: u32,
    /// percent of insertions that use a never-used key
    pub fresh_pct: u32,
    /// FIFO churn: every insertion has the same size
    pub fixed_sizes: bool,
}

const CAPS: [usize; 14] = [0, 1, 3, 4, 7, 8, 14, 15, 28, 29, 56, 57, 112, 113];

pub fn gen_config(rng: &mut Rng, prof: &Profile, overhead: usize) -> (Config, GenState, usize) {
    // every profile sees a few caches of hundreds of entries (a bug that needs, say, more than 255
    // entries must not be visible to C07/C20 only); C07/C20 add runs with thousands
    let large = (prof.large_pct > 0 && rng.chance(prof.large_pct as u64, 100)) || rng.chance(1, 160);
    // hasher
    let mode = match rng.below(12) {
        0..=3 => HashMode::Good,
        4..=5 => HashMode::Const,
        6 => HashMode::Mod(2 + rng.below(3) as u32),
        7 => HashMode::SameH2,
        8 => HashMode::SameSlot,
        9 => HashMode::Ident,
        10 => HashMode::Rekey,
        _ => HashMode::Good,
    };
    // colliding hashers make every probe linear in the number of entries: not for caches of thousands
    let mode = if large && matches!(mode, HashMode::Const | HashMode::SameSlot | HashMode::Mod(_)) { HashMode::Good } else { mode };
    let salt = rng.next_u64();
    // universe
    let universe: u32 = if large {
        4096
    } else {
        match rng.below(10) {
            0..=1 => 1 + rng.below(3) as u32,
            2..=6 => 4 + rng.below(13) as u32,
            _ => 17 + rng.below(48) as u32,
        }
    };
    // size classes
    let (kheaps, vheaps): (Vec<usize>, Vec<usize>) = match rng.below(4) {
        0 => (vec![0], vec![rng.below(40) as usize]),
        1 => (vec![0, rng.below(16) as usize], vec![rng.below(20) as usize, 20 + rng.below(200) as usize]),
        2 => (vec![rng.below(8) as usize], (0..4).map(|_| rng.below(500) as usize).collect()),
        _ => ((0..3).map(|_| rng.below(32) as usize).collect(), (0..6).map(|_| rng.below(120) as usize).collect()),
    };
    let unit = overhead + kheaps[0] + vheaps[0];
    // limit regime
    let k = 1 + rng.below(8) as usize;
    let max_size = if large {
        usize::MAX
    } else {
        match rng.below(16) {
            0 => 0,
            1 => unit,
            2..=5 => k * unit,
            6..=7 => k * unit + 1,
            8 => (k * unit).saturating_sub(1),
            9..=10 => usize::MAX,
            11 => usize::MAX - rng.below(3) as usize,
            _ => rng.below(20 * unit as u64 + 1) as usize,
        }
    };
    let ctor = if large {
        Ctor::WithHasher
    } else {
        match rng.below(4) {
            0 => Ctor::WithHasher,
            1..=2 => Ctor::WithCapacityAndHasher(*rng.pick(&CAPS)),
            _ => Ctor::WithCapacityAndHasher(rng.below(301) as usize),
        }
    };
    // op mix: random subset disabled
    let mut weights = prof.weights;
    for (i, w) in weights.iter_mut().enumerate() {
        if i != CAT_INSERT && rng.chance(1, 4) {
            *w = 0;
        }
    }
    let two_caches = weights[CAT_CLONE] > 0;
    let steps = if rng.chance(1, 12) {
        prof.max_steps + rng.usize_below(prof.max_steps * 9 + 1)
    } else {
        prof.min_steps + rng.usize_below(prof.max_steps - prof.min_steps + 1)
    };
    // churn regime: medium-sized caches at (nearly) constant length with colliding hashers, long
    // histories: this is where tombstones build up and "growth" can shrink the table
    let churn = !large && rng.chance(1, 7);
    let mut fifo = false;
    let (universe, max_size, mode, steps, kheaps, vheaps, ctor) = if churn {
        fifo = rng.bool();
        let k = if fifo { 16 + rng.usize_below(24) } else { 12 + rng.usize_below(60) };
        let c = rng.below(30) as usize;
        let mode = match rng.below(8) {
            0..=1 => HashMode::Const,
            2..=4 => HashMode::Ident,
            5 => HashMode::SameSlot,
            6 => HashMode::Mod(2),
            _ => mode,
        };
        let mode = if fifo && rng.chance(2, 3) { HashMode::Ident } else { mode };
        let quiet_capacity = fifo || rng.bool();
        for (i, w) in weights.iter_mut().enumerate() {
            if matches!(i, CAT_CLEAR | CAT_DRAIN | CAT_ITER_OWNING | CAT_DROP | CAT_SET_MAX | CAT_RETAIN) {
                *w = if fifo { 0 } else { (*w).min(1) };
            }
            if quiet_capacity && matches!(i, CAT_RESERVE | CAT_TRY_RESERVE | CAT_SHRINK_TO | CAT_SHRINK_FIT | CAT_CLONE) {
                *w = if fifo { 0 } else { (*w).min(1) };
            }
            if fifo && matches!(i, CAT_MUTATE | CAT_TRY_INSERT | CAT_REMOVE_LRU | CAT_REMOVE_MRU | CAT_REMOVE_ENTRY | CAT_GET_LRU) {
                *w = (*w).min(1);
            }
        }
        weights[CAT_INSERT] = weights[CAT_INSERT].max(30) * if fifo { 8 } else { 2 };
        weights[CAT_REMOVE] = if fifo { 2 } else { weights[CAT_REMOVE].max(5) * 2 };
        // FIFO churn at exactly constant length: the limit holds k entries exactly, every fresh
        // insertion evicts the oldest; the table starts 1..4 times larger than needed
        let (ctor, steps) = if fifo {
            let m = 1 + rng.usize_below(4);
            let cap = crate::check::fresh_capacity(k * m);
            (if rng.chance(3, 4) { Ctor::WithCapacityAndHasher(k * m) } else { Ctor::WithHasher }, k + 2 * cap + 40 + rng.usize_below(100))
        } else {
            (ctor, 150 + rng.usize_below(350))
        };
        let max = if fifo { k * (overhead + c) } else { k * (overhead + c) + if rng.bool() { 0 } else { usize::MAX / 2 } };
        ((k as u32) * 2, max, mode, steps, vec![0usize], vec![c], ctor)
    } else {
        (universe, max_size, mode, steps, kheaps, vheaps, ctor)
    };
    // once in a few thousand runs: a cache beyond 2^16 entries (counters or budgets in a narrower type)
    let giant = large && rng.chance(1, if prof.large_pct > 0 { prof.giant_div * 2 } else { prof.giant_div });
    let prefill = if !large {
        0
    } else if giant {
        65_536 + rng.below(3) as u32 * 2_000
    } else if prof.large_prefill > 0 {
        prof.large_prefill
    } else {
        260 + rng.below(700) as u32
    };
    let steps = if giant { steps.min(24) } else { steps };
    let universe = if giant { prefill + 64 } else { universe };
    // once in a while a FIFO run is preceded by more than 2^20 unchecked churn operations
    let marathon = if fifo && rng.chance(1, prof.marathon_div) { 3 * (1u32 << 20) + 200_000 + rng.below(60_000) as u32 } else { 0 };
    let cfg = Config { ctor, mode, salt, max_size, universe, prefill, prefill_vh: vheaps[0], marathon };
    let fresh_pct = if fifo { 100 } else if churn { *rng.pick(&[0u32, 50, 90, 100]) } else { *rng.pick(&[0u32, 0, 0, 5, 30]) };
    let gs = GenState { kheaps, vheaps, weights, recent_gone: Vec::new(), two_caches, refuse_pct: prof.refuse_pct, natural_oom: prof.natural_oom, fresh_next: universe.max(1) + 1000, fresh_pct, fixed_sizes: fifo };
    (cfg, gs, steps)
}

fn pick_key(rng: &mut Rng, pre: &Obs, universe: u32, gs: &GenState) -> u32 {
    let n = pre.entries.len();
    match rng.below(10) {
        0 if n > 0 => pre.entries[0].id,
        1 if n > 0 => pre.entries[n - 1].id,
        2..=3 if n > 0 => pre.entries[rng.usize_below(n)].id,
        4 if !gs.recent_gone.is_empty() => *rng.pick(&gs.recent_gone),
        _ => rng.below(universe as u64) as u32,
    }
}

fn clamp_heap(total: u128, base: usize) -> Option<usize> {
    // heap value v such that base + v == total
    if total < base as u128 {
        return None;
    }
    let v = total - base as u128;
    if v > usize::MAX as u128 {
        None
    } else {
        Some(v as usize)
    }
}

/// Chooses a value heap so that the entry (with `kh`) lands on an interesting boundary.
fn pick_insert_vh(rng: &mut Rng, pre: &Obs, overhead: usize, kh: usize, existing: Option<usize>, gs: &GenState) -> usize {
    let base = overhead + kh;
    let max = pre.max as u128;
    let cur = pre.cur as u128;
    let free = max.saturating_sub(cur);
    let credit = existing.map(|i| pre.entries[i].size as u128).unwrap_or(0);
    let mut cands: Vec<u128> = Vec::new();
    match rng.below(10) {
        0..=2 => {}
        3 => cands.extend([free + credit, free + credit + 1, (free + credit).saturating_sub(1)]),
        4 => cands.extend([free, free + 1, free.saturating_sub(1)]),
        5 => cands.extend([max, max + 1, max.saturating_sub(1)]),
        6..=7 => {
            // needs exactly j evictions / one byte more
            let j = 1 + rng.usize_below(3);
            let mut room = free + credit;
            let mut taken = 0;
            for (i, e) in pre.entries.iter().enumerate() {
                if Some(i) == existing {
                    continue;
                }
                if taken == j {
                    break;
                }
                room += e.size as u128;
                taken += 1;
            }
            cands.extend([room, room + 1]);
        }
        8 => {
            if let Some(i) = existing {
                let s = pre.entries[i].size as u128;
                cands.extend([s, s + 1, s.saturating_sub(1)]);
            }
        }
        _ => cands.push(base as u128),
    }
    let ok: Vec<usize> = cands
        .into_iter()
        .filter_map(|t| clamp_heap(t, base))
        .filter(|&v| v <= HEAP_CAP || (base as u128 + v as u128 == usize::MAX as u128 && pre.max == usize::MAX))
        .collect();
    if ok.is_empty() {
        *rng.pick(&gs.vheaps)
    } else {
        *rng.pick(&ok)
    }
}

pub fn gen_op(rng: &mut Rng, gs: &mut GenState, cfg: &Config, pres: &[Option<Obs>; 2], overhead: usize) -> Op {
    // target
    let target: u8 = if pres[1].is_some() && rng.chance(2, 5) { 1 } else { 0 };
    let pre = pres[target as usize].as_ref().expect("target cache exists");
    let n = pre.entries.len();
    let mut w = gs.weights;
    if !gs.two_caches {
        w[CAT_CLONE] = 0;
    }
    if w.iter().all(|&x| x == 0) {
        w[CAT_INSERT] = 1;
    }
    let cat = rng.weighted(&w);
    let owned = rng.bool();
    let uni = cfg.universe;
    let kind = match cat {
        CAT_INSERT | CAT_TRY_INSERT => {
            let k = if gs.fresh_pct > 0 && rng.chance(gs.fresh_pct as u64, 100) {
                gs.fresh_next += 1;
                gs.fresh_next
            } else {
                pick_key(rng, pre, uni, gs)
            };
            let kh = *rng.pick(&gs.kheaps);
            let existing = pre.find(k);
            let vh = if gs.fixed_sizes && rng.chance(19, 20) { gs.vheaps[0] } else { pick_insert_vh(rng, pre, overhead, kh, existing, gs) };
            if cat == CAT_INSERT {
                OpKind::Insert { k, kh, vh }
            } else {
                OpKind::TryInsert { k, kh, vh }
            }
        }
        CAT_GET => OpKind::Get { k: pick_key(rng, pre, uni, gs), owned },
        CAT_GET_ENTRY => OpKind::GetEntry { k: pick_key(rng, pre, uni, gs), owned },
        CAT_TOUCH => OpKind::Touch { k: pick_key(rng, pre, uni, gs), owned },
        CAT_GET_LRU => OpKind::GetLru,
        CAT_PEEK => OpKind::Peek { k: pick_key(rng, pre, uni, gs), owned },
        CAT_PEEK_ENTRY => OpKind::PeekEntry { k: pick_key(rng, pre, uni, gs), owned },
        CAT_CONTAINS => OpKind::Contains { k: pick_key(rng, pre, uni, gs), owned },
        CAT_PEEK_LRU => OpKind::PeekLru,
        CAT_PEEK_MRU => OpKind::PeekMru,
        CAT_REMOVE => OpKind::Remove { k: pick_key(rng, pre, uni, gs), owned },
        CAT_REMOVE_ENTRY => OpKind::RemoveEntry { k: pick_key(rng, pre, uni, gs), owned },
        CAT_REMOVE_LRU => OpKind::RemoveLru,
        CAT_REMOVE_MRU => OpKind::RemoveMru,
        CAT_MUTATE => {
            let k = if n > 0 && rng.chance(4, 5) { pre.entries[match rng.below(4) { 0 => 0, 1 => n - 1, _ => rng.usize_below(n) }].id } else { pick_key(rng, pre, uni, gs) };
            let vh = match pre.find(k) {
                None => *rng.pick(&gs.vheaps),
                Some(i) => {
                    let e = &pre.entries[i];
                    let base = e.size - e.vheap; // entry size with an empty value heap
                    let max = pre.max as u128;
                    let free = max.saturating_sub(pre.cur as u128);
                    let s = e.size as u128;
                    let mut cands: Vec<u128> = Vec::new();
                    match rng.below(10) {
                        0 => cands.push(base as u128),
                        1 => cands.push(s),
                        2 => cands.extend([s + free, s + free + 1, (s + free).saturating_sub(1)]),
                        3 => cands.extend([max, max + 1]),
                        4..=6 => {
                            let j = 1 + rng.usize_below(3);
                            let mut room = s + free;
                            let mut taken = 0;
                            for (q, o) in pre.entries.iter().enumerate() {
                                if q == i {
                                    continue;
                                }
                                if taken == j {
                                    break;
                                }
                                room += o.size as u128;
                                taken += 1;
                            }
                            cands.extend([room, room + 1]);
                        }
                        7 => cands.push(s.saturating_sub(1 + rng.below(8) as u128).max(base as u128)),
                        _ => {}
                    }
                    let ok: Vec<usize> = cands
                        .into_iter()
                        .filter_map(|t| clamp_heap(t, base))
                        .filter(|&v| v <= HEAP_CAP || (base as u128 + v as u128 == usize::MAX as u128 && pre.max == usize::MAX))
                        .collect();
                    if ok.is_empty() {
                        *rng.pick(&gs.vheaps)
                    } else {
                        *rng.pick(&ok)
                    }
                }
            };
            OpKind::Mutate { k, owned, vh, panic: ClosurePanic::No }
        }
        CAT_SET_MAX => {
            let total = pre.cur;
            let lru = pre.entries.first().map(|e| e.size).unwrap_or(0);
            let m = match rng.below(12) {
                0 => total,
                1 => total.saturating_sub(1),
                2 => total.saturating_sub(lru),
                3 => total.saturating_sub(lru).saturating_sub(1),
                4 => 0,
                5 => usize::MAX,
                6 => pre.max.saturating_add(1),
                7 => pre.max.saturating_sub(1),
                8 => total.saturating_add(1),
                9 => cfg.max_size,
                _ => rng.below((pre.max.min(1 << 20) as u64).saturating_mul(2).saturating_add(2)) as usize,
            };
            OpKind::SetMaxSize { m }
        }
        CAT_RETAIN => {
            let keep: Vec<bool> = match rng.below(8) {
                0 => vec![],
                1 => vec![false; n],
                2 if n > 0 => {
                    let mut v = vec![true; n];
                    v[0] = false;
                    v
                }
                3 if n > 0 => {
                    let mut v = vec![true; n];
                    v[n - 1] = false;
                    v
                }
                4 if n > 0 => {
                    let mut v = vec![true; n];
                    v[0] = false;
                    v[n - 1] = false;
                    v
                }
                5 => (0..n).map(|i| i % 2 == 0).collect(),
                6 => (0..n).map(|i| i % 2 == 1).collect(),
                _ => (0..n).map(|_| rng.bool()).collect(),
            };
            OpKind::Retain { keep, panic_at: None }
        }
        CAT_CLEAR => OpKind::Clear,
        CAT_RESERVE | CAT_TRY_RESERVE => {
            let slack = pre.cap.saturating_sub(pre.len);
            let try_ = cat == CAT_TRY_RESERVE;
            let a = match rng.below(14) {
                0 => 0,
                1 => 1,
                2 => slack,
                3 => slack + 1,
                4 => pre.len,
                5 => (2 * pre.cap).min(4096),
                6 => usize::MAX,
                7 => usize::MAX / 56,
                8 => usize::MAX - pre.len,
                9 if gs.natural_oom && try_ => 1usize << 44,
                10 => rng.below(4097) as usize,
                _ => rng.below((2 * pre.cap as u64 + 8).min(4096)) as usize,
            };
            if try_ {
                let would_realloc = pre.len.checked_add(a).map(|w| w > pre.cap).unwrap_or(false);
                let refuse = would_realloc && a < (1 << 36) && rng.chance(gs.refuse_pct as u64, 100);
                OpKind::TryReserve { a, refuse }
            } else {
                OpKind::Reserve { a }
            }
        }
        CAT_SHRINK_TO => {
            let c = match rng.below(12) {
                0 => 0,
                1 => pre.len,
                2 => pre.len.saturating_sub(1),
                3 => pre.len + 1,
                4 => pre.cap,
                5 => pre.cap.saturating_sub(1),
                6 => pre.cap + 1,
                7 => pre.cap / 2,
                8 => usize::MAX,
                9 => fresh_capacity(pre.len).saturating_sub(1),
                _ => rng.below(2 * pre.cap as u64 + 2) as usize,
            };
            OpKind::ShrinkTo { c }
        }
        CAT_SHRINK_FIT => OpKind::ShrinkToFit,
        CAT_CLONE => {
            if rng.chance(1, 3) {
                OpKind::CloneFrom
            } else {
                OpKind::CloneTo
            }
        }
        CAT_ITER_BORROW | CAT_DRAIN | CAT_ITER_OWNING => {
            let kind = match cat {
                CAT_ITER_BORROW => *rng.pick(&[IterKind::Iter, IterKind::Keys, IterKind::Values]),
                CAT_DRAIN => IterKind::Drain,
                _ => *rng.pick(&[IterKind::IntoIter, IterKind::IntoKeys, IterKind::IntoValues]),
            };
            let len = rng.usize_below(n.min(40) + 4);
            let style = rng.below(4);
            let script: Vec<bool> = (0..len)
                .map(|_| match style {
                    0 => true,
                    1 => false,
                    _ => rng.bool(),
                })
                .collect();
            // now and then through the provided methods an implementation may override
            let skips: Vec<u8> = if rng.chance(1, 4) { (0..len).map(|_| *rng.pick(&[0u8, 0, 0, 1, 2, 5])).collect() } else { Vec::new() };
            let end = match rng.below(16) {
                0..=1 => EndMode::PanicDrop,
                2 => EndMode::Count,
                3 => EndMode::Last,
                4 => EndMode::Fold,
                5 => EndMode::RFold,
                _ => EndMode::Drop,
            };
            OpKind::IterScript { kind, script, end, skips }
        }
        CAT_DEBUG => OpKind::DebugFmt,
        CAT_GETTERS => OpKind::Getters,
        _ => {
            if rng.chance(1, 3) {
                OpKind::DropCacheUnwinding
            } else {
                OpKind::DropCache
            }
        }
    };
    Op { target, kind, fuse: None }
}

/// Teardown style appended to a run.
pub fn gen_teardown(rng: &mut Rng, pres: &[Option<Obs>; 2]) -> Vec<Op> {
    let mut ops = Vec::new();
    for t in 0..2u8 {
        let pre = match &pres[t as usize] {
            Some(p) => p,
            None => continue,
        };
        let n = pre.entries.len();
        match rng.below(7) {
            0 => {}
            1 => ops.push(Op { target: t, kind: OpKind::Clear, fuse: None }),
            2 => {
                // (a step on a cache of tens of thousands of entries costs a full observation)
                let k = if n > 1024 { 4 } else { n.min(64) + 1 };
                for _ in 0..k {
                    ops.push(Op { target: t, kind: OpKind::RemoveLru, fuse: None });
                }
            }
            3 => {
                let len = rng.usize_below(n.min(40) + 3);
                let script = (0..len).map(|_| rng.bool()).collect();
                ops.push(Op { target: t, kind: OpKind::IterScript { kind: IterKind::Drain, script, end: EndMode::Drop, skips: vec![] }, fuse: None });
            }
            4..=5 => {
                let kind = *rng.pick(&[IterKind::IntoIter, IterKind::IntoKeys, IterKind::IntoValues]);
                let len = rng.usize_below(n.min(40) + 3);
                let script = (0..len).map(|_| rng.bool()).collect();
                ops.push(Op { target: t, kind: OpKind::IterScript { kind, script, end: EndMode::Drop, skips: vec![] }, fuse: None });
            }
            _ => ops.push(Op { target: t, kind: if rng.chance(1, 3) { OpKind::DropCacheUnwinding } else { OpKind::DropCache }, fuse: None }),
        }
    }
    ops
}
