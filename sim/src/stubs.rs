//! Simulated user types (key, borrowed key form, value), simulated hasher, and the per-thread
//! context that records every callback lru-mem makes into "user code", keeps the identity
//! ledger, and holds the fault fuse.
//!
//! These are STUBS: they stand in for the user's key/value/hasher types.  All of lru-mem and
//! hashbrown run as real code against them.

use lru_mem::HeapSize;
use serde::{Deserialize, Serialize};
use std::borrow::Borrow;
use std::cell::RefCell;
use std::hash::{BuildHasher, Hash, Hasher};

use crate::prng::splitmix64;

// ------------------------------------------------------------------------------------------
// events

pub const EV_HASH_KEY: u8 = 0; // a = key token (owned form hashed)
pub const EV_HASH_ID: u8 = 1; // a = key id (one per hash computation, both forms)
pub const EV_EQ_KK: u8 = 2; // a = self token, b = other token
pub const EV_EQ_ID: u8 = 3; // a = self id, b = other id
pub const EV_BORROW: u8 = 4; // a = key token
pub const EV_CLONE_K: u8 = 5; // a = source token, b = new token
pub const EV_CLONE_V: u8 = 6;
pub const EV_HEAP_K: u8 = 7; // a = token
pub const EV_HEAP_V: u8 = 8;
pub const EV_DROP_K: u8 = 9;
pub const EV_DROP_V: u8 = 10;
pub const EV_CLOSURE: u8 = 11; // a = value token
pub const EV_PRED: u8 = 12; // a = key token, b = value token
pub const EV_HB_CLONE: u8 = 13;
pub const EV_DEBUG: u8 = 14; // a = token

#[derive(Clone, Copy, Debug, PartialEq, Eq)]
pub struct Ev {
    pub kind: u8,
    pub a: u32,
    pub b: u32,
}

// ------------------------------------------------------------------------------------------
// fuses (fault injection: panic at the n-th callback of a kind)

#[derive(Clone, Copy, Debug, PartialEq, Eq, Hash, Serialize, Deserialize, PartialOrd, Ord)]
pub enum FuseKind {
    Hash,
    Eq,
    CloneK,
    CloneV,
    HeapK,
    HeapV,
}

pub const ALL_FUSES: [FuseKind; 6] = [
    FuseKind::Hash,
    FuseKind::Eq,
    FuseKind::CloneK,
    FuseKind::CloneV,
    FuseKind::HeapK,
    FuseKind::HeapV,
];

impl FuseKind {
    pub fn idx(self) -> usize {
        self as usize
    }
    pub fn name(self) -> &'static str {
        match self {
            FuseKind::Hash => "panic_in_hash",
            FuseKind::Eq => "panic_in_eq",
            FuseKind::CloneK => "panic_in_key_clone",
            FuseKind::CloneV => "panic_in_value_clone",
            FuseKind::HeapK => "panic_in_key_heap_size",
            FuseKind::HeapV => "panic_in_value_heap_size",
        }
    }
}

pub const BUDGET_EXCEEDED: &str = "callback_budget_exceeded";
pub const CALLBACK_BUDGET: usize = 400_000;

pub fn set_budget(n: usize) {
    with_ctx(|c| c.budget = n);
}

/// Payload of every panic the simulator injects.
#[derive(Debug, Clone, Copy)]
pub struct Injected(pub &'static str);

// ------------------------------------------------------------------------------------------
// context

pub const ST_NONE: u8 = 0;
pub const ST_ALIVE: u8 = 1;
pub const ST_DROPPED: u8 = 2;

pub struct Ctx {
    pub enabled: bool,
    pub state: Vec<u8>,
    /// (0 = key, 1 = value; key id or u32::MAX)
    pub meta: Vec<(u8, u32)>,
    pub events: Vec<Ev>,
    /// memory-class violations detected inside callbacks (double drop, use after drop)
    pub viol: Vec<String>,
    pub fuse: Option<(FuseKind, u32)>,
    pub fuse_fired: bool,
    /// calls per fuse kind since `begin_step`
    pub counts: [u32; 6],
    pub total_events: u64,
    /// callback budget of the current operation (0 = unlimited): an operation of the real cache that
    /// keeps calling back beyond it is not going to terminate (e.g. a walk over a cyclic list)
    pub budget: usize,
}

impl Ctx {
    const fn new() -> Ctx {
        Ctx {
            enabled: false,
            state: Vec::new(),
            meta: Vec::new(),
            events: Vec::new(),
            viol: Vec::new(),
            fuse: None,
            fuse_fired: false,
            counts: [0; 6],
            total_events: 0,
            budget: 0,
        }
    }

    fn check_alive(&mut self, tok: u32, what: &str) {
        let st = self.state.get(tok as usize).copied().unwrap_or(ST_NONE);
        if st != ST_ALIVE && self.viol.len() < 16 {
            let (kind, id) = self.meta.get(tok as usize).copied().unwrap_or((9, 0));
            self.viol.push(format!(
                "{} on {} token #{} (id {}) which is {}",
                what,
                if kind == 0 { "key" } else if kind == 1 { "value" } else { "unknown" },
                tok,
                id as i64 as i32,
                if st == ST_DROPPED { "already dropped" } else { "not a live instance (garbage)" }
            ));
        }
    }

    /// returns true if the fuse fires
    fn tick(&mut self, k: FuseKind) -> bool {
        self.counts[k.idx()] = self.counts[k.idx()].saturating_add(1);
        if let Some((fk, left)) = self.fuse {
            if fk == k {
                if left == 0 {
                    self.fuse = None;
                    self.fuse_fired = true;
                    return true;
                }
                self.fuse = Some((fk, left - 1));
            }
        }
        false
    }
}

thread_local! {
    pub static CTX: RefCell<Ctx> = const { RefCell::new(Ctx::new()) };
}

pub fn with_ctx<R>(f: impl FnOnce(&mut Ctx) -> R) -> R {
    CTX.with(|c| f(&mut c.borrow_mut()))
}

/// Resets the context for a new run and enables recording on this thread.
pub fn ctx_reset() {
    with_ctx(|c| {
        c.enabled = true;
        c.state.clear();
        c.meta.clear();
        c.events.clear();
        c.viol.clear();
        c.fuse = None;
        c.fuse_fired = false;
        c.counts = [0; 6];
        c.total_events = 0;
    });
}

pub fn ctx_disable() {
    with_ctx(|c| c.enabled = false);
}

pub fn begin_step() {
    with_ctx(|c| {
        c.events.clear();
        c.counts = [0; 6];
        c.fuse = None;
        c.fuse_fired = false;
    });
}

pub fn arm(kind: FuseKind, nth: u32) {
    with_ctx(|c| {
        c.fuse = Some((kind, nth));
        c.fuse_fired = false;
    });
}

pub fn disarm() -> bool {
    with_ctx(|c| {
        c.fuse = None;
        c.fuse_fired
    })
}

pub fn take_events() -> Vec<Ev> {
    with_ctx(|c| {
        c.total_events += c.events.len() as u64;
        std::mem::take(&mut c.events)
    })
}

pub fn clear_events() {
    with_ctx(|c| c.events.clear());
}

pub fn take_viol() -> Vec<String> {
    with_ctx(|c| std::mem::take(&mut c.viol))
}

pub fn counts() -> [u32; 6] {
    with_ctx(|c| c.counts)
}

pub fn tok_state(tok: u32) -> u8 {
    with_ctx(|c| c.state.get(tok as usize).copied().unwrap_or(ST_NONE))
}

pub fn live_tokens() -> Vec<u32> {
    with_ctx(|c| {
        c.state
            .iter()
            .enumerate()
            .filter(|(_, &s)| s == ST_ALIVE)
            .map(|(i, _)| i as u32)
            .collect()
    })
}

pub fn n_tokens() -> usize {
    with_ctx(|c| c.state.len())
}

fn new_tok(kind: u8, id: u32) -> u32 {
    with_ctx(|c| {
        if !c.enabled {
            return u32::MAX;
        }
        let t = c.state.len() as u32;
        c.state.push(ST_ALIVE);
        c.meta.push((kind, id));
        t
    })
}

#[inline]
fn event(kind: u8, a: u32, b: u32, alive: &[u32], what: &str, fuse: Option<FuseKind>) {
    let mut over_budget = false;
    let fire = CTX.with(|c| {
        let mut c = c.borrow_mut();
        if !c.enabled {
            return false;
        }
        for &t in alive {
            c.check_alive(t, what);
        }
        c.events.push(Ev { kind, a, b });
        if c.budget != 0 && c.events.len() > c.budget {
            c.budget = 0;
            over_budget = true;
            return false;
        }
        match fuse {
            Some(k) => c.tick(k),
            None => false,
        }
    });
    if over_budget {
        std::panic::panic_any(Injected(BUDGET_EXCEEDED));
    }
    if fire {
        std::panic::panic_any(Injected(fuse.unwrap().name()));
    }
}

fn on_drop(kind: u8, tok: u32) {
    // never panics, except to cut off an operation that has exceeded its callback budget (a drop
    // loop over a cyclic list never ends) and only when no unwinding is in progress
    let mut over_budget = false;
    let _ = CTX.try_with(|c| {
        if let Ok(mut c) = c.try_borrow_mut() {
            if !c.enabled {
                return;
            }
            if c.budget != 0 && c.events.len() > c.budget {
                // cut the operation off if that is possible (not while unwinding); in any case stop
                // recording, so that a destructor loop that never ends cannot exhaust memory
                over_budget = true;
                if !std::thread::panicking() {
                    c.budget = 0;
                }
                return;
            }
            let st = c.state.get(tok as usize).copied().unwrap_or(ST_NONE);
            if st == ST_ALIVE {
                c.state[tok as usize] = ST_DROPPED;
            } else if c.viol.len() < 16 {
                let id = c.meta.get(tok as usize).map(|m| m.1).unwrap_or(0);
                c.viol.push(format!(
                    "drop of {} token #{} (id {}) which is {}",
                    if kind == EV_DROP_K { "key" } else { "value" },
                    tok,
                    id as i32,
                    if st == ST_DROPPED { "already dropped (double drop)" } else { "not a live instance (garbage)" }
                ));
            }
            c.events.push(Ev { kind, a: tok, b: 0 });
        }
    });
    if over_budget && !std::thread::panicking() {
        std::panic::panic_any(Injected(BUDGET_EXCEEDED));
    }
}

// ------------------------------------------------------------------------------------------
// key types

/// Borrowed form of the key (`K: Borrow<KeyId>`).
#[derive(Clone, Copy, Debug)]
#[repr(transparent)]
pub struct KeyId(pub u32);

impl Hash for KeyId {
    fn hash<H: Hasher>(&self, state: &mut H) {
        event(EV_HASH_ID, self.0, 0, &[], "hash", Some(FuseKind::Hash));
        state.write_u32(self.0);
    }
}

impl PartialEq for KeyId {
    fn eq(&self, other: &KeyId) -> bool {
        event(EV_EQ_ID, self.0, other.0, &[], "eq", Some(FuseKind::Eq));
        self.0 == other.0
    }
}

impl Eq for KeyId {}

pub struct SimKey {
    pub id: KeyId,
    pub tok: u32,
    pub heap: usize,
    #[cfg(feature = "payload")]
    pub payload: Box<u32>,
}

impl SimKey {
    pub fn new(id: u32, heap: usize) -> SimKey {
        let tok = new_tok(0, id);
        SimKey {
            id: KeyId(id),
            tok,
            heap,
            #[cfg(feature = "payload")]
            payload: Box::new(id),
        }
    }

    #[inline]
    fn touch_payload(&self) {
        #[cfg(feature = "payload")]
        {
            // a real read of the heap payload so that sanitizers see use-after-free
            let v = unsafe { std::ptr::read_volatile(&*self.payload as *const u32) };
            std::hint::black_box(v);
        }
    }
}

impl Hash for SimKey {
    fn hash<H: Hasher>(&self, state: &mut H) {
        self.touch_payload();
        event(EV_HASH_KEY, self.tok, 0, &[self.tok], "hash", None);
        self.id.hash(state);
    }
}

impl PartialEq for SimKey {
    fn eq(&self, other: &SimKey) -> bool {
        self.touch_payload();
        other.touch_payload();
        event(EV_EQ_KK, self.tok, other.tok, &[self.tok, other.tok], "eq", Some(FuseKind::Eq));
        self.id.0 == other.id.0
    }
}

impl Eq for SimKey {}

impl Borrow<KeyId> for SimKey {
    fn borrow(&self) -> &KeyId {
        self.touch_payload();
        event(EV_BORROW, self.tok, 0, &[self.tok], "borrow", None);
        &self.id
    }
}

impl Clone for SimKey {
    fn clone(&self) -> SimKey {
        self.touch_payload();
        // fuse first: a panicking clone creates no new instance
        event(EV_CLONE_K, self.tok, u32::MAX, &[self.tok], "clone", Some(FuseKind::CloneK));
        let k = SimKey::new(self.id.0, self.heap);
        with_ctx(|c| {
            if c.enabled {
                if let Some(e) = c.events.last_mut() {
                    if e.kind == EV_CLONE_K && e.a == self.tok {
                        e.b = k.tok;
                    }
                }
            }
        });
        k
    }
}

impl HeapSize for SimKey {
    fn heap_size(&self) -> usize {
        self.touch_payload();
        event(EV_HEAP_K, self.tok, 0, &[self.tok], "heap_size", Some(FuseKind::HeapK));
        self.heap
    }
}

impl Drop for SimKey {
    fn drop(&mut self) {
        on_drop(EV_DROP_K, self.tok);
    }
}

impl std::fmt::Debug for SimKey {
    fn fmt(&self, f: &mut std::fmt::Formatter<'_>) -> std::fmt::Result {
        self.touch_payload();
        event(EV_DEBUG, self.tok, 0, &[self.tok], "Debug", None);
        write!(f, "k{}", self.id.0)
    }
}

// ------------------------------------------------------------------------------------------
// value type

pub struct SimVal {
    pub tok: u32,
    pub heap: usize,
    #[cfg(feature = "payload")]
    pub payload: Box<u32>,
}

impl SimVal {
    pub fn new(heap: usize) -> SimVal {
        let tok = new_tok(1, u32::MAX);
        SimVal {
            tok,
            heap,
            #[cfg(feature = "payload")]
            payload: Box::new(tok),
        }
    }

    #[inline]
    fn touch_payload(&self) {
        #[cfg(feature = "payload")]
        {
            let v = unsafe { std::ptr::read_volatile(&*self.payload as *const u32) };
            std::hint::black_box(v);
        }
    }
}

impl Clone for SimVal {
    fn clone(&self) -> SimVal {
        self.touch_payload();
        event(EV_CLONE_V, self.tok, u32::MAX, &[self.tok], "clone", Some(FuseKind::CloneV));
        let v = SimVal::new(self.heap);
        with_ctx(|c| {
            if c.enabled {
                if let Some(e) = c.events.last_mut() {
                    if e.kind == EV_CLONE_V && e.a == self.tok {
                        e.b = v.tok;
                    }
                }
            }
        });
        v
    }
}

impl HeapSize for SimVal {
    fn heap_size(&self) -> usize {
        self.touch_payload();
        event(EV_HEAP_V, self.tok, 0, &[self.tok], "heap_size", Some(FuseKind::HeapV));
        self.heap
    }
}

impl Drop for SimVal {
    fn drop(&mut self) {
        on_drop(EV_DROP_V, self.tok);
    }
}

impl std::fmt::Debug for SimVal {
    fn fmt(&self, f: &mut std::fmt::Formatter<'_>) -> std::fmt::Result {
        self.touch_payload();
        event(EV_DEBUG, self.tok, 0, &[self.tok], "Debug", None);
        write!(f, "v{}", self.tok)
    }
}

/// Logs a closure / predicate invocation (called by the engine's generated closures).
pub fn log_closure(vtok: u32) {
    event(EV_CLOSURE, vtok, 0, &[vtok], "mutate closure argument", None);
}

pub fn log_pred(ktok: u32, vtok: u32) {
    event(EV_PRED, ktok, vtok, &[ktok, vtok], "retain predicate argument", None);
}

// ------------------------------------------------------------------------------------------
// hasher seam

#[derive(Clone, Copy, Debug, PartialEq, Eq, Hash, Serialize, Deserialize)]
pub enum HashMode {
    /// well distributed
    Good,
    /// every key hashes to the same value
    Const,
    /// k hash classes
    Mod(u32),
    /// all keys share hashbrown's 7-bit control tag (top bits) but not the probe start
    SameH2,
    /// all keys share the probe start (low bits) but not the tag
    SameSlot,
    /// identity: hash = id (sequential keys fill consecutive slots, tag always 0)
    Ident,
    /// well distributed, but `Clone` of the builder re-keys it: a clone of the cache must place and
    /// find its entries with ITS OWN hasher
    Rekey,
}

#[derive(Debug)]
pub struct SimHashBuilder {
    pub mode: HashMode,
    pub salt: u64,
}

impl Clone for SimHashBuilder {
    fn clone(&self) -> SimHashBuilder {
        let salt = if self.mode == HashMode::Rekey { splitmix64(self.salt ^ 0x5eed) } else { self.salt };
        SimHashBuilder { mode: self.mode, salt }
    }
}

impl SimHashBuilder {
    pub fn new(mode: HashMode, salt: u64) -> SimHashBuilder {
        SimHashBuilder { mode, salt }
    }
}

pub struct SimHasher {
    mode: HashMode,
    salt: u64,
    acc: u64,
}

impl Hasher for SimHasher {
    fn write(&mut self, bytes: &[u8]) {
        for &b in bytes {
            self.acc = self.acc.wrapping_mul(0x100_0000_01b3) ^ b as u64;
        }
    }
    fn write_u32(&mut self, i: u32) {
        self.acc = i as u64;
    }
    fn finish(&self) -> u64 {
        let id = self.acc;
        match self.mode {
            HashMode::Good | HashMode::Rekey => splitmix64(id ^ self.salt),
            HashMode::Const => self.salt,
            HashMode::Mod(k) => splitmix64((id % k.max(1) as u64) ^ self.salt),
            HashMode::SameH2 => (splitmix64(id ^ self.salt) & ((1u64 << 57) - 1)) | (0x2au64 << 57),
            HashMode::SameSlot => splitmix64(id ^ self.salt) << 32,
            HashMode::Ident => id,
        }
    }
}

impl BuildHasher for SimHashBuilder {
    type Hasher = SimHasher;
    fn build_hasher(&self) -> SimHasher {
        SimHasher { mode: self.mode, salt: self.salt, acc: 0 }
    }
}

pub type Cache = lru_mem::LruCache<SimKey, SimVal, SimHashBuilder>;

/// Size of an entry whose key and value report zero heap.
pub fn entry_overhead() -> usize {
    // computed without logging: done once while the context is disabled or events are discarded
    std::mem::size_of::<usize>() * 3 + std::mem::size_of::<SimKey>() + std::mem::size_of::<SimVal>()
}
