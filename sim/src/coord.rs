//! Coordinator (fans out worker processes, aggregates, verifies replays in fresh processes,
//! writes evidence, prints VIOLATION / KNOWN-FINDING lines) and worker (executes a range of
//! run indices for one property).

use crate::faults::*;
use crate::minimise::minimise;
use crate::ops::*;
use crate::prng::{derive, Rng};
use crate::props::*;
use crate::run::*;
use serde::{Deserialize, Serialize};
use serde_json::json;
use std::collections::BTreeMap;
use std::io::Write;
use std::os::unix::fs::FileExt;
use std::path::{Path, PathBuf};
use std::time::{Duration, Instant};

#[derive(Serialize, Deserialize, Clone, Debug)]
pub struct VRec {
    pub property: String,
    pub class: String,
    pub msg: String,
    pub replay: String,
    pub run_index: u64,
    pub steps: usize,
}

#[derive(Serialize, Deserialize, Default, Debug)]
pub struct WorkerResult {
    pub units: u64,
    pub evaluations: u64,
    pub steps: u64,
    pub digests_file: String,
    pub states_file: String,
    pub probes: BTreeMap<String, u64>,
    pub fault_kinds: BTreeMap<String, (u64, u64)>,
    pub violations: Vec<VRec>,
    pub known_hits: BTreeMap<String, u64>,
    pub other_property_violations: u64,
    pub leaks_in_fault_runs: u64,
    pub samples: Vec<serde_json::Value>,
    pub digest: u64,
    pub hasher_modes: BTreeMap<String, u64>,
    pub ctors: BTreeMap<String, u64>,
    pub fault_unfired: u64,
    pub stopped_runs: u64,
    /// a panic of the harness's own code (never a verdict about the code under test)
    #[serde(default)]
    pub harness_panic: Option<String>,
}

#[derive(Deserialize, Clone, Debug)]
pub struct KnownFinding {
    pub status: String,
    pub property: String,
    pub class: String,
    pub what: String,
    #[serde(default)]
    pub commit: Option<String>,
}

#[derive(Deserialize, Default, Debug)]
pub struct KnownFindings {
    pub findings: Vec<KnownFinding>,
}

/// Seed-mode traces: the run is identified by (property, VERIF_SEED, run index, tier) and
/// regenerated on replay (used for crashes, hangs and sanitizer reports).
pub struct Trace0;

impl Trace0 {
    pub fn seed(prop: &str, verif_seed: u64, idx: u64, class: &str, msg: &str, sanitizer: &str, tier: &str) -> Trace {
        Trace {
            property: prop.into(),
            violation: Some(class.into()),
            message: Some(msg.into()),
            verif_seed,
            run_index: idx,
            run_seed: derive(verif_seed, prop_num(prop) as u64, idx),
            mode: "seed".into(),
            config: Config { ctor: Ctor::WithHasher, mode: crate::stubs::HashMode::Good, salt: 0, max_size: 0, universe: 0, prefill: 0, prefill_vh: 0, marathon: 0 },
            ops: vec![],
            sanitizer: if sanitizer.is_empty() { None } else { Some(sanitizer.into()) },
            tier: Some(tier.into()),
            build: if sanitizer.is_empty() { Some(build_variant().into()) } else { None },
        }
    }
}

pub fn root_dir() -> PathBuf {
    if let Some(r) = std::env::var_os("LRUSIM_ROOT") {
        return PathBuf::from(r);
    }
    PathBuf::from("/verif")
}

pub fn load_known() -> KnownFindings {
    let p = root_dir().join("known_findings.json");
    match std::fs::read_to_string(&p) {
        Ok(s) => serde_json::from_str(&s).unwrap_or_else(|e| {
            eprintln!("harness error: cannot parse {}: {}", p.display(), e);
            std::process::exit(2);
        }),
        Err(_) => KnownFindings::default(),
    }
}

pub fn is_known_pub(known: &KnownFindings, prop: &str, class: &str) -> Option<String> {
    is_known(known, prop, class)
}

fn is_known(known: &KnownFindings, prop: &str, class: &str) -> Option<String> {
    known.findings.iter().find(|f| f.status == "open" && f.property == prop && f.class == class).map(|f| f.what.clone())
}

static HEART: std::sync::OnceLock<std::fs::File> = std::sync::OnceLock::new();
static HEART_N: std::sync::atomic::AtomicU64 = std::sync::atomic::AtomicU64::new(1 << 32);

/// Progress heartbeat for the coordinator's watchdog (second word of the worker's status file);
/// called by the engine every few steps so that a legitimately long run is not mistaken for a hang.
pub fn heartbeat() {
    if let Some(f) = HEART.get() {
        let n = HEART_N.fetch_add(1, std::sync::atomic::Ordering::Relaxed);
        let _ = f.write_at(&n.to_le_bytes(), 8);
    }
}

pub fn build_variant() -> &'static str {
    if cfg!(debug_assertions) {
        "checked"
    } else {
        "userlike"
    }
}

pub struct Budget {
    pub units: u64,
}

pub fn budget_for(prop: &str, thorough: bool) -> Budget {
    if let Some(n) = std::env::var("LRUSIM_UNITS").ok().and_then(|s| s.parse().ok()) {
        return Budget { units: n };
    }
    let units = match (prop, thorough) {
        ("C16", false) => 48_000,
        ("C16", true) => 400_000,
        ("C17", false) => 6_400,
        ("C17", true) => 50_000,
        ("C07", false) | ("C20", false) => 32_000,
        ("C07", true) | ("C20", true) => 200_000,
        ("C13", false) => 32_000,
        ("C13", true) => 200_000,
        (_, false) => 48_000,
        (_, true) => 400_000,
    };
    Budget { units }
}

fn trace_sample(t: &Trace, max_ops: usize) -> serde_json::Value {
    json!({
        "config": format!("{:?}", t.config),
        "mode": t.mode,
        "ops": t.ops.iter().take(max_ops).map(fmt_op).collect::<Vec<_>>(),
        "ops_total": t.ops.len(),
    })
}

fn matches_viol(out: &RunOut, pbit: Props, class: &str) -> bool {
    out.viols.iter().any(|v| v.props & pbit != 0 && v.class == class)
}

pub fn replay_dir() -> PathBuf {
    let d = root_dir().join("replays");
    let _ = std::fs::create_dir_all(&d);
    d
}

fn write_trace(path: &Path, t: &Trace) {
    let s = serde_json::to_string_pretty(t).expect("serialise trace");
    std::fs::write(path, s).expect("write replay file");
}

struct Worker<'e> {
    env: &'e Env,
    prop: String,
    pbit: Props,
    thorough: bool,
    verif_seed: u64,
    known: KnownFindings,
    res: WorkerResult,
    digests: Vec<u64>,
    states: Vec<u64>,
    no_min: bool,
    wa: Option<PathBuf>,
    max_viol: usize,
    /// progress heartbeat (second word of the status file), bumped inside long units
    heartbeat: Option<(std::fs::File, u64)>,
}

impl<'e> Worker<'e> {
    fn beat(&mut self) {
        heartbeat();
    }

    fn absorb(&mut self, out: &RunOut) {
        self.res.evaluations += 1;
        self.res.steps += out.steps as u64;
        for (p, d) in &out.decisions {
            if p & self.pbit != 0 {
                self.digests.push(*d);
            }
        }
        self.states.extend_from_slice(&out.state_digests);
        for (k, v) in &out.probes.0 {
            *self.res.probes.entry(k.to_string()).or_insert(0) += v;
        }
        // commutative combination: independent of how runs are partitioned among workers
        self.res.digest = self.res.digest.wrapping_add(crate::prng::splitmix64(out.digest));
        if out.fault_unfired {
            self.res.fault_unfired += 1;
        }
    }

    /// Looks at the violations of one executed trace; minimises and records the first relevant one.
    fn judge(&mut self, trace: &Trace, out: &RunOut, fault_prop: Props) {
        let mut seen_classes: Vec<&'static str> = Vec::new();
        for v in &out.viols {
            if v.props & self.pbit == 0 {
                self.res.other_property_violations += 1;
                continue;
            }
            if seen_classes.contains(&v.class) {
                continue;
            }
            seen_classes.push(v.class);
            if let Some(_what) = is_known(&self.known, &self.prop, v.class) {
                let e = self.res.known_hits.entry(v.class.to_string()).or_insert(0);
                *e += 1;
                continue;
            }
            if self.res.violations.len() >= self.max_viol || self.res.violations.iter().any(|r| r.class == v.class) {
                continue;
            }
            // minimise
            let env = self.env;
            let pbit = self.pbit;
            let class = v.class;
            let mut best = trace.clone();
            if !self.no_min {
                let mut test = |c: &Trace| matches_viol(&run_trace(env, c, fault_prop), pbit, class);
                best = minimise(trace, &mut test, 3000);
            }
            let final_out = run_trace(env, &best, fault_prop);
            let msg = final_out.viols.iter().find(|x| x.props & pbit != 0 && x.class == class).map(|x| x.msg.clone()).unwrap_or_else(|| v.msg.clone());
            best.violation = Some(class.to_string());
            best.message = Some(msg.clone());
            best.property = self.prop.clone();
            let path = replay_dir().join(format!("{}-{}-{}-{}.json", self.prop, self.verif_seed, trace.run_index, class));
            write_trace(&path, &best);
            self.res.violations.push(VRec { property: self.prop.clone(), class: class.to_string(), msg, replay: path.to_string_lossy().into_owned(), run_index: trace.run_index, steps: best.ops.len() });
        }
    }

    fn wa_write(&self, t: &Trace) {
        if let Some(p) = &self.wa {
            write_trace(p, t);
        }
    }

    fn mk_trace(&self, mode: &str, idx: u64, seed: u64, cfg: &Config, ops: Vec<Op>) -> Trace {
        Trace { property: self.prop.clone(), violation: None, message: None, verif_seed: self.verif_seed, run_index: idx, run_seed: seed, mode: mode.into(), config: cfg.clone(), ops, sanitizer: None, tier: Some(if self.thorough { "thorough".into() } else { "quick".into() }), build: Some(build_variant().into()) }
    }

    fn note_cfg(&mut self, cfg: &Config) {
        *self.res.hasher_modes.entry(format!("{:?}", cfg.mode).split('(').next().unwrap().to_string()).or_insert(0) += 1;
        let c = match cfg.ctor {
            Ctor::WithHasher => "with_hasher".to_string(),
            Ctor::WithCapacityAndHasher(n) => format!("with_capacity_and_hasher({})", if n <= 8 { n.to_string() } else if n <= 64 { "9..64".into() } else { "65..300".into() }),
        };
        *self.res.ctors.entry(c).or_insert(0) += 1;
    }

    fn unit_generated(&mut self, idx: u64, seed: u64) {
        if self.wa.is_some() {
            // write-ahead: the seed identifies the run
            let t = Trace0::seed(&self.prop, self.verif_seed, idx, "", "", "", if self.thorough { "thorough" } else { "quick" });
            self.wa_write(&t);
        }
        let (trace, out) = run_generated(self.env, &self.prop, self.thorough, self.verif_seed, idx, seed);
        self.note_cfg(&trace.config);
        self.absorb(&out);
        if out.viols.is_empty() {
            if self.res.samples.len() < 3 && trace.ops.len() <= 14 && trace.ops.len() >= 4 {
                self.res.samples.push(trace_sample(&trace, 14));
            }
        } else {
            self.judge(&trace, &out, 0);
        }
    }

    fn unit_cases(&mut self, idx: u64, seed: u64, mode: &str, base: &Base, mut cases: Vec<FaultCase>, fault_prop: Props) {
        self.note_cfg(&base.cfg);
        if cfg!(miri) && cases.len() > 8 {
            // under Miri a unit is a deterministic sample of 8 of its cases (interpretation is ~1000x slower)
            let stride = cases.len() / 8;
            let mut i = 0;
            cases.retain(|_| {
                i += 1;
                (i - 1) % stride == (seed as usize) % stride
            });
            cases.truncate(8);
        }
        for case in cases {
            self.beat();
            let e = self.res.fault_kinds.entry(case.kind.to_string()).or_insert((0, 0));
            e.0 += 1;
            if self.wa.is_some() {
                let t = self.mk_trace(mode, idx, seed, &base.cfg, case.ops.clone());
                self.wa_write(&t);
            }
            let out = if fault_prop != 0 { run_fault_trace(self.env, &base.cfg, &case.ops, case.at, fault_prop) } else {
                let t = self.mk_trace(mode, idx, seed, &base.cfg, case.ops.clone());
                run_trace(self.env, &t, 0)
            };
            let fired = out.fault_fired.is_some() || out.probes.0.get("allocator_refusal_fired").copied().unwrap_or(0) > 0 || out.probes.0.get("try_reserve_capacity_overflow").copied().unwrap_or(0) > 0;
            if fired {
                self.res.fault_kinds.get_mut(case.kind).unwrap().1 += 1;
            }
            if fault_prop != 0 {
                self.res.leaks_in_fault_runs += out.leaks as u64;
            }
            self.absorb(&out);
            if !out.viols.is_empty() {
                let t = self.mk_trace(mode, idx, seed, &base.cfg, case.ops.clone());
                self.judge(&t, &out, fault_prop);
            } else if self.res.samples.len() < 3 && case.ops.len() <= 12 && fired {
                let t = self.mk_trace(mode, idx, seed, &base.cfg, case.ops.clone());
                self.res.samples.push(trace_sample(&t, 12));
            }
        }
    }

    /// Alternative instantiations (types without drop glue, default constructors): see alt.rs.
    fn unit_alt(&mut self, idx: u64, seed: u64) {
        if self.wa.is_some() {
            let t = Trace0::seed(&self.prop, self.verif_seed, idx, "", "", "", if self.thorough { "thorough" } else { "quick" });
            self.wa_write(&t);
        }
        let (viols, runs) = crate::alt::run_unit(seed);
        self.res.evaluations += runs;
        *self.res.probes.entry("alternative_instantiation_histories".into()).or_insert(0) += runs;
        for v in viols {
            if v.props & self.pbit == 0 {
                self.res.other_property_violations += 1;
                continue;
            }
            if self.res.violations.iter().any(|r| r.class == v.class) || self.res.violations.len() >= self.max_viol {
                continue;
            }
            let path = replay_dir().join(format!("{}-{}-{}-{}.json", self.prop, self.verif_seed, idx, v.class));
            let t = Trace0::seed(&self.prop, self.verif_seed, idx, v.class, &v.msg, "", if self.thorough { "thorough" } else { "quick" });
            write_trace(&path, &t);
            self.res.violations.push(VRec { property: self.prop.clone(), class: v.class.to_string(), msg: v.msg, replay: path.to_string_lossy().into_owned(), run_index: idx, steps: 0 });
        }
    }

    fn unit(&mut self, idx: u64) {
        let stream = prop_num(&self.prop) as u64;
        let seed = derive(self.verif_seed, stream, idx);
        if idx % 32 == 17 && matches!(self.prop.as_str(), "C02" | "C04" | "C05" | "C06" | "C11" | "C12" | "C13" | "C14") {
            return self.unit_alt(idx, seed);
        }
        match self.prop.as_str() {
            "C16" => {
                let base = gen_base(self.env, "C16", seed, true);
                let mut rng = Rng::new(seed ^ 0x5eed);
                let cases = crash_points(&base, &mut rng);
                self.unit_cases(idx, seed, "panic", &base, cases, C16);
            }
            "C17" => {
                let base = gen_base(self.env, "C17", seed, false);
                let mut rng = Rng::new(seed ^ 0x5eed);
                let cases = forget_cases(&base, &mut rng);
                self.unit_cases(idx, seed, "forget", &base, cases, C17);
            }
            "C13" => {
                if idx % 4 == 3 {
                    let base = gen_base(self.env, "C13", seed, true);
                    let cases = refusal_cases(&base);
                    self.unit_cases(idx, seed, "normal", &base, cases, 0);
                } else {
                    self.unit_generated(idx, seed);
                }
            }
            "C12" => {
                if idx % 8 == 7 {
                    let base = gen_base(self.env, "C12", seed, false);
                    let mut rng = Rng::new(seed ^ 0x5eed);
                    let cases = script_cases(&base, &mut rng);
                    self.unit_cases(idx, seed, "normal", &base, cases, 0);
                } else {
                    self.unit_generated(idx, seed);
                }
            }
            _ => self.unit_generated(idx, seed),
        }
    }
}

pub fn worker_main(args: &[String]) -> i32 {
    // worker <prop> <tier> <verif_seed> <from> <to> <out_prefix> [--no-min] [--wa <path>]
    let prop = args[0].clone();
    let thorough = args[1] == "thorough";
    let verif_seed: u64 = args[2].parse().expect("seed");
    let from: u64 = args[3].parse().expect("from");
    let to: u64 = args[4].parse().expect("to");
    let prefix = PathBuf::from(&args[5]);
    let no_min = args.iter().any(|a| a == "--no-min");
    let wa = args.iter().position(|a| a == "--wa").map(|i| PathBuf::from(&args[i + 1]));
    let env = detect_env();
    let pbit = prop_bit(&prop).expect("property id");
    let mut w = Worker { env: &env, prop: prop.clone(), pbit, thorough, verif_seed, known: load_known(), res: WorkerResult::default(), digests: Vec::new(), states: Vec::new(), no_min, wa, max_viol: 3, heartbeat: None };
    let status = std::fs::OpenOptions::new().create(true).write(true).truncate(true).open(prefix.with_extension("status")).expect("status file");
    w.heartbeat = status.try_clone().ok().map(|f| (f, 0));
    if let Ok(f) = status.try_clone() {
        let _ = HEART.set(f);
    }
    for idx in from..to {
        let _ = status.write_at(&idx.to_le_bytes(), 0);
        let r = std::panic::catch_unwind(std::panic::AssertUnwindSafe(|| w.unit(idx)));
        if let Err(e) = r {
            let msg = e.downcast_ref::<String>().cloned().or_else(|| e.downcast_ref::<&str>().map(|s| s.to_string())).unwrap_or_else(|| "non-string panic payload".into());
            if w.res.harness_panic.is_none() {
                w.res.harness_panic = Some(format!("run index {}: {}", idx, msg));
            }
            crate::stubs::ctx_disable();
            crate::alloc::set_tracking(false);
        }
        w.res.units += 1;
        if w.digests.len() > 4_000_000 {
            w.digests.sort_unstable();
            w.digests.dedup();
        }
        if w.states.len() > 4_000_000 {
            w.states.sort_unstable();
            w.states.dedup();
        }
    }
    let _ = status.write_at(&u64::MAX.to_le_bytes(), 0);
    w.digests.sort_unstable();
    w.digests.dedup();
    w.states.sort_unstable();
    w.states.dedup();
    let dfile = prefix.with_extension("digests");
    let sfile = prefix.with_extension("states");
    write_u64s(&dfile, &w.digests);
    write_u64s(&sfile, &w.states);
    w.res.digests_file = dfile.to_string_lossy().into_owned();
    w.res.states_file = sfile.to_string_lossy().into_owned();
    let s = serde_json::to_string(&w.res).expect("serialise result");
    std::fs::write(prefix.with_extension("result"), s).expect("write result");
    0
}

fn write_u64s(p: &Path, v: &[u64]) {
    let mut f = std::io::BufWriter::new(std::fs::File::create(p).expect("create"));
    for x in v {
        f.write_all(&x.to_le_bytes()).expect("write");
    }
}

fn read_u64s(p: &Path) -> Vec<u64> {
    let b = std::fs::read(p).unwrap_or_default();
    b.chunks_exact(8).map(|c| u64::from_le_bytes(c.try_into().unwrap())).collect()
}

// ------------------------------------------------------------------------------------------
// replay

/// Returns (exit code, printed lines)
pub fn replay_main(path: &str) -> i32 {
    let s = match std::fs::read_to_string(path) {
        Ok(s) => s,
        Err(e) => {
            eprintln!("harness error: cannot read {}: {}", path, e);
            return 2;
        }
    };
    if let Ok(v) = serde_json::from_str::<serde_json::Value>(&s) {
        if v["mode"].as_str() == Some("c09") {
            return crate::c09::replay(&v, path);
        }
        if v["mode"].as_str() == Some("threads") {
            return crate::threads::replay(&v, path);
        }
    }
    let trace: Trace = match serde_json::from_str(&s) {
        Ok(t) => t,
        Err(e) => {
            eprintln!("harness error: cannot parse {}: {}", path, e);
            return 2;
        }
    };
    // a trace found by the other build variant is replayed by that variant
    if let Some(b) = &trace.build {
        if b != build_variant() && trace.sanitizer.is_none() {
            let other = if b == "userlike" { std::env::var("LRUSIM_ALT_BIN").ok() } else { std::env::var("LRUSIM_MAIN_BIN").ok() };
            match other.filter(|p| Path::new(p).exists()) {
                Some(bin) => {
                    // replace this process (no grandchild that would survive a supervisor's kill)
                    use std::os::unix::process::CommandExt;
                    let e = std::process::Command::new(bin).args(["replay", path]).exec();
                    eprintln!("harness error: cannot run the {} build: {}", b, e);
                    return 2;
                }
                None => {
                    eprintln!("harness error: the trace was recorded by the '{}' build, which is not available (run through ./check --replay)", b);
                    return 2;
                }
            }
        }
    }
    let env = detect_env();
    let pbit = prop_bit(&trace.property).unwrap_or(0);
    let class = trace.violation.clone().unwrap_or_default();
    println!("replaying {} (property {}, expected violation class '{}', {} ops, mode {})", path, trace.property, class, trace.ops.len(), trace.mode);
    let out = match trace.mode.as_str() {
        "seed" => {
            let thorough = trace.tier.as_deref() == Some("thorough");
            if let Some(san) = &trace.sanitizer {
                return crate::sanitize::replay(&trace.property, if thorough { "thorough" } else { "quick" }, trace.verif_seed, trace.run_index, san, path);
            }
            // regenerate from the seed (used for crashes / hangs, where no concrete trace survived)
            let known = load_known();
            let mut w = Worker { env: &env, prop: trace.property.clone(), pbit, thorough, verif_seed: trace.verif_seed, known, res: WorkerResult::default(), digests: vec![], states: vec![], no_min: true, wa: None, max_viol: 3, heartbeat: None };
            w.unit(trace.run_index);
            for v in &w.res.violations {
                println!("  violation [{}] {}: {}", v.property, v.class, v.msg);
            }
            if w.res.violations.iter().any(|v| class.is_empty() || v.class == class) {
                println!("VIOLATION property={} replay={}", trace.property, path);
                return 1;
            }
            println!("NOT REPRODUCED: the run completed without the recorded violation");
            return 0;
        }
        "panic" | "forget" => run_trace(&env, &trace, pbit),
        _ => run_trace(&env, &trace, 0),
    };
    for v in &out.viols {
        println!("  step {} [{}] {}: {}", v.step, props_names(v.props), v.class, v.msg);
    }
    let hit = out.viols.iter().any(|v| v.props & pbit != 0 && (class.is_empty() || v.class == class));
    if hit {
        let known = load_known();
        if let Some(what) = is_known(&known, &trace.property, &class) {
            println!("KNOWN-FINDING: property={} {}", trace.property, what);
            return 0;
        }
        println!("VIOLATION property={} replay={}", trace.property, path);
        1
    } else {
        println!("NOT REPRODUCED: the trace ran without a '{}' violation of {}", class, trace.property);
        0
    }
}

// ------------------------------------------------------------------------------------------
// coordinator

struct Child {
    proc: std::process::Child,
    prefix: PathBuf,
    from: u64,
    to: u64,
    last_progress: (u64, u64),
    last_change: Instant,
    last_run_change: Instant,
    done: bool,
    /// binary of the user-like build variant, when this worker runs it
    alt: Option<String>,
}

fn self_exe() -> PathBuf {
    std::env::current_exe().expect("current exe")
}

/// A child running this binary under an address-space cap (a runaway run must die, not take the
/// machine with it). Not used for the ASan / Miri variants, which reserve huge address ranges.
fn capped_self(args: &[&str]) -> std::process::Command {
    capped_bin(None, args)
}

fn capped_bin(bin: Option<&str>, args: &[&str]) -> std::process::Command {
    let mut c = std::process::Command::new("sh");
    c.arg("-c").arg("ulimit -v 12000000 2>/dev/null; exec \"$0\" \"$@\"");
    match bin {
        Some(b) => c.arg(b),
        None => c.arg(self_exe()),
    };
    c.args(args);
    c
}

fn tmp_dir() -> PathBuf {
    let d = root_dir().join("sim").join("target").join("tmp");
    let _ = std::fs::create_dir_all(&d);
    d
}

pub struct CheckOutcome {
    pub exit: i32,
}

pub fn check_main(prop: &str, tier: &str) -> i32 {
    let t0 = Instant::now();
    let thorough = tier == "thorough";
    let verif_seed: u64 = std::env::var("VERIF_SEED").ok().and_then(|s| s.parse().ok()).unwrap_or(1);
    let pbit = match prop_bit(prop) {
        Some(b) => b,
        None => {
            eprintln!("harness error: unknown property {}", prop);
            return 2;
        }
    };
    let _ = pbit;
    println!("lrusim check {} {} VERIF_SEED={}", prop, tier, verif_seed);
    // self-check of the re-implemented hashbrown sizing formula (a hashbrown change must not turn
    // into false alarms of the capacity oracles)
    for n in (0..=1024usize).chain([1500, 2047, 2048, 3000, 4096]) {
        let real = crate::stubs::Cache::with_capacity_and_hasher(0, n, crate::stubs::SimHashBuilder::new(crate::stubs::HashMode::Good, 0)).capacity();
        if real != crate::check::fresh_capacity(n) {
            eprintln!("harness error: fresh_capacity({}) = {} but the real table has capacity {} (hashbrown's sizing changed?)", n, crate::check::fresh_capacity(n), real);
            return 2;
        }
    }
    if prop == "C09" {
        return crate::c09::check_main(tier, verif_seed);
    }
    let budget = budget_for(prop, thorough);
    let nworkers: u64 = std::env::var("LRUSIM_WORKERS").ok().and_then(|s| s.parse().ok()).unwrap_or_else(|| std::thread::available_parallelism().map(|n| n.get() as u64).unwrap_or(4).min(16));
    let nworkers = nworkers.min(budget.units.max(1));
    let tmp = tmp_dir();
    let pid = std::process::id();
    let mut children: Vec<Child> = Vec::new();
    let mut alt_workers = 0u64;
    // interleaved chunks so that every worker sees a similar mix; ranges are contiguous blocks
    let per = (budget.units + nworkers - 1) / nworkers;
    for w in 0..nworkers {
        let from = w * per;
        let to = ((w + 1) * per).min(budget.units);
        if from >= to {
            continue;
        }
        let prefix = tmp.join(format!("w-{}-{}-{}", pid, prop, w));
        // every second worker runs the user-like build (no overflow checks, no debug assertions)
        let alt = std::env::var("LRUSIM_ALT_BIN").ok().filter(|p| w % 2 == 1 && Path::new(p).exists());
        if alt.is_some() {
            alt_workers += 1;
        }
        let alt_of_worker = alt.clone();
        let proc = capped_bin(alt.as_deref(), &["worker", prop, tier, &verif_seed.to_string(), &from.to_string(), &to.to_string(), prefix.to_str().unwrap()])
            .stdout(std::process::Stdio::null())
            .spawn();
        match proc {
            Ok(p) => children.push(Child { proc: p, prefix, from, to, last_progress: (u64::MAX - 1, 0), last_change: Instant::now(), last_run_change: Instant::now(), done: false, alt: alt_of_worker }),
            Err(e) => {
                eprintln!("harness error: cannot spawn worker: {}", e);
                return 2;
            }
        }
    }
    // supervise
    let hang_limit = Duration::from_secs(std::env::var("LRUSIM_HANG_SECS").ok().and_then(|s| s.parse().ok()).unwrap_or(30));
    let mut dead: Vec<(u64, &'static str, Option<String>)> = Vec::new(); // (run index, how, build variant binary)
    let mut harness_failed = false;
    loop {
        let mut running = 0;
        for c in children.iter_mut() {
            if c.done {
                continue;
            }
            let st = read_progress(&c.prefix);
            if st.0 != c.last_progress.0 {
                c.last_run_change = Instant::now();
            }
            if st != c.last_progress {
                c.last_progress = st;
                c.last_change = Instant::now();
            }
            match c.proc.try_wait() {
                Ok(Some(status)) => {
                    c.done = true;
                    if !status.success() {
                        let idx = read_status(&c.prefix);
                        if status.code().is_some() {
                            // an exit code (101 = panic in the harness itself), not a signal: this is
                            // a harness error, never a verdict about the code under test
                            eprintln!("harness error: worker for runs {}..{} exited with {} at run index {} (LRUSIM_VERBOSE_PANICS=1 shows the panic)", c.from, c.to, status, idx);
                            harness_failed = true;
                        }
                        dead.push((idx, "crashed", c.alt.clone()));
                        eprintln!("worker for runs {}..{} died ({}) at run index {}", c.from, c.to, status, idx);
                    }
                }
                Ok(None) => {
                    // no heartbeat for `hang_limit`, or heartbeats but the same run for 8 x `hang_limit`
                    // (a run that keeps the harness's own loops busy for ever, e.g. a marathon prefix
                    // on a cache whose every operation has become slow)
                    if c.last_change.elapsed() > hang_limit || c.last_run_change.elapsed() > 8 * hang_limit {
                        let idx = read_status(&c.prefix);
                        let _ = c.proc.kill();
                        let _ = c.proc.wait();
                        c.done = true;
                        dead.push((idx, "hung", c.alt.clone()));
                        eprintln!("worker for runs {}..{} made no progress for {:?} at run index {}: killed", c.from, c.to, hang_limit, idx);
                    } else {
                        running += 1;
                    }
                }
                Err(_) => {
                    c.done = true;
                }
            }
        }
        if running == 0 {
            break;
        }
        std::thread::sleep(Duration::from_millis(25));
    }
    if harness_failed {
        for c in &children {
            for ext in ["result", "digests", "states", "status"] {
                let _ = std::fs::remove_file(c.prefix.with_extension(ext));
            }
        }
        return 2;
    }
    // aggregate
    let mut total = WorkerResult::default();
    let mut digests: Vec<u64> = Vec::new();
    let mut states: Vec<u64> = Vec::new();
    let mut missing = 0;
    for c in &children {
        let rp = c.prefix.with_extension("result");
        match std::fs::read_to_string(&rp).ok().and_then(|s| serde_json::from_str::<WorkerResult>(&s).ok()) {
            Some(r) => {
                total.units += r.units;
                total.evaluations += r.evaluations;
                total.steps += r.steps;
                for (k, v) in r.probes {
                    *total.probes.entry(k).or_insert(0) += v;
                }
                for (k, v) in r.fault_kinds {
                    let e = total.fault_kinds.entry(k).or_insert((0, 0));
                    e.0 += v.0;
                    e.1 += v.1;
                }
                for (k, v) in r.known_hits {
                    *total.known_hits.entry(k).or_insert(0) += v;
                }
                for (k, v) in r.hasher_modes {
                    *total.hasher_modes.entry(k).or_insert(0) += v;
                }
                for (k, v) in r.ctors {
                    *total.ctors.entry(k).or_insert(0) += v;
                }
                if let Some(h) = r.harness_panic {
                    eprintln!("harness error: the simulator's own code panicked at {} (LRUSIM_VERBOSE_PANICS=1 shows where)", h);
                    harness_failed = true;
                }
                total.other_property_violations += r.other_property_violations;
                total.leaks_in_fault_runs += r.leaks_in_fault_runs;
                total.fault_unfired += r.fault_unfired;
                total.digest = total.digest.wrapping_add(r.digest);
                for s in r.samples {
                    if total.samples.len() < 3 {
                        total.samples.push(s);
                    }
                }
                total.violations.extend(r.violations);
                digests.extend(read_u64s(Path::new(&r.digests_file)));
                states.extend(read_u64s(Path::new(&r.states_file)));
            }
            None => missing += 1,
        }
        for ext in ["result", "digests", "states", "status"] {
            let _ = std::fs::remove_file(c.prefix.with_extension(ext));
        }
    }
    digests.sort_unstable();
    digests.dedup();
    states.sort_unstable();
    states.dedup();
    if harness_failed {
        return 2;
    }
    if missing as usize > dead.len() {
        eprintln!("harness error: {} workers produced no result without dying", missing);
        return 2;
    }

    // dead workers: re-run the run index alone, write-ahead, un-minimised
    let mut cut_short = 0u64;
    // a run of the real code that crashes or never ends is a violation of the memory-safety
    // properties and of C12 (an iterator that is consumed must reach `None`); for the others it is
    // outside the oracle and only counted
    let memory_safety_prop = matches!(prop, "C06" | "C07" | "C12" | "C16" | "C17");
    let mut crash_violations: Vec<VRec> = Vec::new();
    if dead.len() > 2 {
        println!("note: {} workers died or hung; the first two are investigated, the rest are counted as cut short", dead.len());
        cut_short += (dead.len() - 2) as u64;
    }
    for (idx, how, alt) in dead.iter().take(2) {
        if *idx >= u64::MAX - 1 {
            eprintln!("harness error: a worker died outside any run");
            return 2;
        }
        let prefix = tmp.join(format!("solo-{}-{}-{}", pid, prop, idx));
        let wa = replay_dir().join(format!("{}-{}-{}-{}.json", prop, verif_seed, idx, how));
        // in the build variant of the worker that died (a hang of the user-like build need not exist in the checked one)
        let (code, _) = run_child_bin(alt.as_deref(), &[
            "worker", prop, tier, &verif_seed.to_string(), &idx.to_string(), &(idx + 1).to_string(), prefix.to_str().unwrap(), "--no-min", "--wa", wa.to_str().unwrap(),
        ], hang_limit);
        let solo: Option<WorkerResult> = std::fs::read_to_string(prefix.with_extension("result")).ok().and_then(|s| serde_json::from_str(&s).ok());
        for ext in ["result", "digests", "states", "status"] {
            let _ = std::fs::remove_file(prefix.with_extension(ext));
        }
        match (code, solo) {
            (ChildEnd::Exited(0), Some(r)) => {
                // completed on its own this time: take whatever it found
                if r.violations.is_empty() {
                    eprintln!("run index {} {} in the batch but completed alone without violation: not reproducible -> harness error", idx, how);
                    return 2;
                }
                total.violations.extend(r.violations);
                let _ = std::fs::remove_file(&wa);
            }
            (end, _) => {
                // died again: the write-ahead trace is the replay
                if let Ok(s) = std::fs::read_to_string(&wa) {
                    if let Ok(mut t) = serde_json::from_str::<Trace>(&s) {
                        let class = match end {
                            ChildEnd::TimedOut => "hang",
                            _ => "crash",
                        };
                        t.violation = Some(class.into());
                        t.message = Some(format!("the simulated run {} the process ({:?})", how, end));
                        write_trace(&wa, &t);
                        if memory_safety_prop {
                            crash_violations.push(VRec { property: prop.into(), class: class.into(), msg: t.message.clone().unwrap(), replay: wa.to_string_lossy().into_owned(), run_index: *idx, steps: t.ops.len() });
                        } else {
                            cut_short += 1;
                            println!("note: run index {} was cut short by a {} outside this property's oracle (trace kept at {})", idx, class, wa.display());
                        }
                    }
                }
            }
        }
    }

    // verify replays in fresh processes
    let known = load_known();
    let mut confirmed: Vec<VRec> = Vec::new();
    let mut seen: Vec<String> = Vec::new();
    for v in total.violations.iter() {
        if seen.contains(&v.class) {
            continue;
        }
        seen.push(v.class.clone());
        let (end, outp) = run_child(&["replay", &v.replay], hang_limit);
        match end {
            ChildEnd::Exited(1) if outp.contains("VIOLATION property=") => confirmed.push(v.clone()),
            other => {
                eprintln!("harness error: violation '{}' of {} did not replay in a fresh process ({:?}); trace {}", v.class, v.property, other, v.replay);
                return 2;
            }
        }
    }
    for v in crash_violations {
        let (end, _) = run_child(&["replay", &v.replay], hang_limit);
        match end {
            ChildEnd::Signaled | ChildEnd::TimedOut | ChildEnd::Exited(1) => confirmed.push(v),
            other => {
                eprintln!("harness error: crash/hang at run {} did not replay ({:?})", v.run_index, other);
                return 2;
            }
        }
    }

    // remove replay files that were not kept (several workers may have hit the same class)
    for v in total.violations.iter() {
        if !confirmed.iter().any(|c| c.replay == v.replay) {
            let _ = std::fs::remove_file(&v.replay);
        }
    }

    // ---------------- sanitizer / scheduler tiers
    let mut san = serde_json::Map::new();
    let ncpu = std::thread::available_parallelism().map(|n| n.get()).unwrap_or(4).min(16);
    if prop == "C19" && std::env::var_os("LRUSIM_NO_MIRI").is_none() {
        let (programs, seeds_per, nthreads, ops) = if thorough { (96, 16, 3, 14) } else { (6, 8, 3, 10) };
        let m = crate::threads::miri_phase(verif_seed, programs, seeds_per, nthreads, ops, ncpu.min(if thorough { 16 } else { 6 }));
        for v in &m.violations {
            let parts: Vec<&str> = v.splitn(3, '|').collect();
            if parts.len() == 3 && !confirmed.iter().any(|c| c.class == parts[0]) {
                confirmed.push(VRec { property: prop.into(), class: parts[0].into(), msg: parts[1].into(), replay: parts[2].into(), run_index: 0, steps: 0 });
            }
        }
        san.insert("miri_reader_thread_programs".into(), json!(m.programs));
        san.insert("miri_schedules".into(), json!(m.schedules));
        san.insert("miri_threads_per_program".into(), json!(nthreads));
        if let Some(e) = &m.error {
            println!("note: the Miri reader-thread phase could not run ({}); only the fingerprint oracle decided this run", e);
            san.insert("miri_unavailable".into(), json!(e));
        }
    }
    let san_props = matches!(prop, "C06" | "C07" | "C12" | "C16" | "C17");
    if !thorough && prop == "C07" && std::env::var_os("LRUSIM_NO_SANITIZERS").is_none() {
        // quick C07 carries a small ASan pass: reads of freed / moved-out memory during an operation
        // that ends coherent are invisible to the structural oracles
        let a = crate::sanitize::asan_phase(prop, "quick", verif_seed, 4_000, ncpu as u64);
        for (class, msg, path) in &a.violations {
            if confirmed.iter().any(|c| &c.class == class) {
                let _ = std::fs::remove_file(path);
                continue;
            }
            confirmed.push(VRec { property: prop.into(), class: class.clone(), msg: msg.clone(), replay: path.clone(), run_index: 0, steps: 0 });
        }
        san.insert("asan_units".into(), json!(a.runs));
        san.insert("asan_wall_s".into(), json!(a.wall_s));
        if let Some(e) = &a.error {
            println!("note: the ASan phase could not run ({})", e);
            san.insert("asan_unavailable".into(), json!(e));
        }
        // ... and a few units under Miri: typed reads of never-initialised memory (e.g. the seal's
        // key/value) are invisible to ASan
        if std::env::var_os("LRUSIM_NO_MIRI").is_none() {
            let m = crate::sanitize::miri_phase(prop, "quick", verif_seed, 12, ncpu.min(12), Duration::from_secs(75));
            for (class, msg, path) in &m.violations {
                if confirmed.iter().any(|c| &c.class == class) {
                    let _ = std::fs::remove_file(path);
                    continue;
                }
                confirmed.push(VRec { property: prop.into(), class: class.clone(), msg: msg.clone(), replay: path.clone(), run_index: 0, steps: 0 });
            }
            san.insert("miri_units".into(), json!(m.runs));
            san.insert("miri_wall_s".into(), json!(m.wall_s));
            if let Some(e) = &m.error {
                println!("note: the Miri phase could not run ({})", e);
                san.insert("miri_unavailable".into(), json!(e));
            }
        }
    }
    if thorough && san_props && std::env::var_os("LRUSIM_NO_SANITIZERS").is_none() {
        let asan_units: u64 = match prop {
            "C16" => 6_000,
            "C17" => 1_200,
            _ => 24_000,
        };
        let a = crate::sanitize::asan_phase(prop, "quick", verif_seed, asan_units, ncpu as u64);
        for (class, msg, path) in &a.violations {
            if confirmed.iter().any(|c| &c.class == class) {
                let _ = std::fs::remove_file(path);
                continue;
            }
            confirmed.push(VRec { property: prop.into(), class: class.clone(), msg: msg.clone(), replay: path.clone(), run_index: 0, steps: 0 });
        }
        san.insert("asan_units".into(), json!(a.runs));
        san.insert("asan_wall_s".into(), json!(a.wall_s));
        if let Some(e) = &a.error {
            println!("note: the ASan phase could not run ({})", e);
            san.insert("asan_unavailable".into(), json!(e));
        }
        let miri_units: u64 = match prop {
            "C16" | "C17" => 16,
            _ => 48,
        };
        let m = crate::sanitize::miri_phase(prop, "quick", verif_seed, miri_units, ncpu, Duration::from_secs(150));
        for (class, msg, path) in &m.violations {
            if confirmed.iter().any(|c| &c.class == class) {
                let _ = std::fs::remove_file(path);
                continue;
            }
            confirmed.push(VRec { property: prop.into(), class: class.clone(), msg: msg.clone(), replay: path.clone(), run_index: 0, steps: 0 });
        }
        san.insert("miri_units".into(), json!(m.runs));
        san.insert("miri_wall_s".into(), json!(m.wall_s));
        if let Some(e) = &m.error {
            println!("note: the Miri phase could not run ({})", e);
            san.insert("miri_unavailable".into(), json!(e));
        }
    }

    // report
    let wall = t0.elapsed().as_secs_f64();
    for (class, n) in &total.known_hits {
        if let Some(what) = is_known(&known, prop, class) {
            println!("KNOWN-FINDING: property={} {} [class {}, hit {} times in this run]", prop, what, class, n);
        }
    }
    for v in &confirmed {
        println!("violation [{}] {} (run index {}, {} ops after minimisation): {}", v.property, v.class, v.run_index, v.steps, v.msg);
        println!("VIOLATION property={} replay={}", v.property, v.replay);
    }
    let level = match prop {
        "C13" | "C16" | "C17" => "fault_enumeration",
        _ => "exploration",
    };
    let rule = rule_for(prop);
    let mut samples = total.samples.clone();
    if samples.is_empty() {
        samples.push(json!({"note": "no short fault-free trace was sampled in this run"}));
    }
    let evidence = json!({
        "property_id": prop,
        "tier": tier,
        "seed": verif_seed,
        "level": level,
        "coverage": {
            "evaluations": total.evaluations,
            "distinct_nontrivial": digests.len(),
            "rule": rule,
            "samples": samples,
            "units": total.units,
            "steps": total.steps,
            "distinct_abstract_states": states.len(),
            "runs_per_hour": if wall > 0.0 { (total.evaluations as f64 / wall * 3600.0) as u64 } else { 0 },
            "seeds": { "verif_seed": verif_seed, "run_index_from": 0, "run_index_to": budget.units, "derivation": "splitmix64(VERIF_SEED, property number, run index)" },
            "fault_kinds": total.fault_kinds.iter().map(|(k, v)| (k.clone(), json!({"armed": v.0, "fired": v.1}))).collect::<BTreeMap<_, _>>(),
            "probes": total.probes,
            "hasher_modes": total.hasher_modes,
            "constructors": total.ctors,
            "components": {
                "real": ["lru_mem (lib.rs, entry.rs, iter.rs, error.rs, verif.rs hook, the parts of mem_size.rs reached)", "hashbrown::raw::RawTable 0.14.5", "std System allocator underneath SimAlloc"],
                "stub": ["SimKey/KeyId/SimVal (user key and value types)", "SimHashBuilder/SimHasher", "generated mutate closures and retain predicates", "SimAlloc (counting + refusing shim)"],
                "not_simulated": ["LruCache::new", "LruCache::with_capacity", "DefaultHashBuilder (ahash seeds from ASLR; not replayable)"]
            },
            "simulated_time": "not applicable - the library has no clock; progress is counted in operations (steps)",
            "cut_short": cut_short,
            "violations_of_other_properties_ignored": total.other_property_violations,
            "leaked_instances_in_fault_runs": total.leaks_in_fault_runs,
            "faults_planned_but_not_reached": total.fault_unfired,
            "known_findings_hit": total.known_hits,
            "workers": nworkers,
            "workers_running_the_user_like_build_without_overflow_checks_and_debug_assertions": alt_workers,
            "sanitizer_passes": san,
            "batch_digest": format!("{:016x}", total.digest),
        },
        "assumptions": [
            "keys/values are the simulator's stub types; Hash is consistent with Eq",
            "hashbrown is the version pinned in Cargo.lock (0.14.5); its sizing formula is self-checked at start-up",
            "sampling: a clean batch is evidence, not proof"
        ],
        "wall_s": wall,
        "violations": confirmed.len(),
    });
    let evdir = root_dir().join("evidence");
    let _ = std::fs::create_dir_all(&evdir);
    let evpath = evdir.join(format!("{}.json", prop));
    if let Err(e) = std::fs::write(&evpath, serde_json::to_string_pretty(&evidence).unwrap()) {
        eprintln!("harness error: cannot write evidence: {}", e);
        return 2;
    }
    println!(
        "{} {}: {} units, {} evaluations, {} steps, {} distinct decision points, {} distinct states, {:.1}s; violations {}, known findings hit {}",
        prop, tier, total.units, total.evaluations, total.steps, digests.len(), states.len(), wall, confirmed.len(), total.known_hits.values().sum::<u64>()
    );
    if confirmed.is_empty() {
        if cut_short > 0 && total.units == 0 {
            eprintln!("harness error: no unit could be completed ({} were cut short by a crash or hang outside this property's oracle): nothing was decided", cut_short);
            return 2;
        }
        0
    } else {
        1
    }
}

fn read_status(prefix: &Path) -> u64 {
    match std::fs::read(prefix.with_extension("status")) {
        Ok(b) if b.len() >= 8 => u64::from_le_bytes(b[..8].try_into().unwrap()),
        _ => u64::MAX - 1,
    }
}

/// run index and heartbeat combined: changes whenever the worker makes any progress
fn read_progress(prefix: &Path) -> (u64, u64) {
    match std::fs::read(prefix.with_extension("status")) {
        Ok(b) if b.len() >= 16 => (u64::from_le_bytes(b[..8].try_into().unwrap()), u64::from_le_bytes(b[8..16].try_into().unwrap())),
        Ok(b) if b.len() >= 8 => (u64::from_le_bytes(b[..8].try_into().unwrap()), 0),
        _ => (u64::MAX - 1, 0),
    }
}

#[derive(Debug, Clone, Copy, PartialEq, Eq)]
pub enum ChildEnd {
    Exited(i32),
    Signaled,
    TimedOut,
    SpawnFailed,
}

pub fn run_child(args: &[&str], limit: Duration) -> (ChildEnd, String) {
    run_child_bin(None, args, limit)
}

pub fn run_child_bin(bin: Option<&str>, args: &[&str], limit: Duration) -> (ChildEnd, String) {
    let tmp = tmp_dir().join(format!("child-{}-{}.out", std::process::id(), args.iter().map(|a| a.len()).sum::<usize>()));
    let f = match std::fs::File::create(&tmp) {
        Ok(f) => f,
        Err(_) => return (ChildEnd::SpawnFailed, String::new()),
    };
    let mut p = match capped_bin(bin, args).stdout(f).spawn() {
        Ok(p) => p,
        Err(_) => return (ChildEnd::SpawnFailed, String::new()),
    };
    let t0 = Instant::now();
    let end = loop {
        match p.try_wait() {
            Ok(Some(st)) => {
                break match st.code() {
                    Some(c) => ChildEnd::Exited(c),
                    None => ChildEnd::Signaled,
                }
            }
            Ok(None) => {
                if t0.elapsed() > limit + Duration::from_secs(5) {
                    let _ = p.kill();
                    let _ = p.wait();
                    break ChildEnd::TimedOut;
                }
                std::thread::sleep(Duration::from_millis(10));
            }
            Err(_) => break ChildEnd::SpawnFailed,
        }
    };
    let out = std::fs::read_to_string(&tmp).unwrap_or_default();
    let _ = std::fs::remove_file(&tmp);
    (end, out)
}

fn rule_for(prop: &str) -> String {
    let common = "cases are seeded simulated runs: swarm-chosen configuration (hasher mode, constructor/capacity, limit regime, universe, size classes, op mix) and state-dependent boundary arguments; every op is executed against the real cache and compared with the reference model applied to the observed pre-state. distinct_nontrivial = number of distinct 64-bit digests of (address-free abstract pre-state [len, current_size, max_size, capacity, (key id, size) in LRU order], concrete op) among the steps where this property's oracle had something to decide: ";
    let specific = match prop {
        "C01" => "insert / growing mutate / set_max_size steps that needed room or landed within one byte of the limit, and replacements",
        "C02" => "steps that change the accounted total (insert, replace, remove*, mutate, retain, clear, drain)",
        "C03" => "steps that must decide an eviction set (insert needing room or replacing, growing mutate, set_max_size)",
        "C04" => "steps with a map-visible result (insert/try_insert/get*/peek*/contains/remove*), and any step across which the table was reallocated",
        "C05" => "steps that promote an entry or report order (get*, touch, get_lru, peek*, Debug, removals from an end), and any step across which the table was reallocated",
        "C06" => "steps that move instances in or out (insert, removals, retain, clear, owning iterators, clone, drop, overflowing mutate) or reallocate",
        "C07" => "steps across which the list changed or the table was reallocated",
        "C10" => "insert and try_insert steps",
        "C11" => "mutate steps",
        "C12" => "iterator scripts (each executed script is one case; exhaustive over all scripts up to len+2 for caches of length <= 4 in the enumeration units)",
        "C13" => "capacity operations, auto-growing insertions, steps inside a with_capacity window; plus injected try_reserve failures (allocator refusal / capacity overflow) at every position of sampled base histories",
        "C14" => "clone steps and every step executed while two caches are alive",
        "C15" => "retain steps",
        "C16" => "each case is one simulated crash: (base history, op index, callback kind, n) with the panic injected at exactly that callback; digest of (pre-state of the faulted op, op with its fault)",
        "C17" => "each case is one forgotten iterator: (base history, iterator kind, script of next/next_back calls) followed by further use and drop; digest of (pre-state, script op)",
        "C19" => "steps executing an operation available through &LruCache (peek*, contains, getters, borrowing iterators, Debug, clone)",
        "C20" => "every step that returned normally (hash-count bound evaluated)",
        _ => "all steps",
    };
    format!("{}{}", common, specific)
}


// ------------------------------------------------------------------------------------------
// determinism self-test

fn batch_digest(prop: &str, verif_seed: u64, units: u64, nworkers: u64, tag: &str) -> Result<(u64, u64), String> {
    let tmp = tmp_dir();
    let per = (units + nworkers - 1) / nworkers;
    let mut children = Vec::new();
    for w in 0..nworkers {
        let from = w * per;
        let to = ((w + 1) * per).min(units);
        if from >= to {
            continue;
        }
        let prefix = tmp.join(format!("det-{}-{}-{}-{}", std::process::id(), prop, tag, w));
        let p = std::process::Command::new(self_exe())
            .args(["worker", prop, "quick", &verif_seed.to_string(), &from.to_string(), &to.to_string(), prefix.to_str().unwrap(), "--no-min"])
            .stdout(std::process::Stdio::null())
            .spawn()
            .map_err(|e| e.to_string())?;
        children.push((p, prefix));
    }
    let mut digest = 0u64;
    let mut evals = 0u64;
    for (mut p, prefix) in children {
        let st = p.wait().map_err(|e| e.to_string())?;
        let r: Option<WorkerResult> = std::fs::read_to_string(prefix.with_extension("result")).ok().and_then(|s| serde_json::from_str(&s).ok());
        for ext in ["result", "digests", "states", "status"] {
            let _ = std::fs::remove_file(prefix.with_extension(ext));
        }
        match (st.success(), r) {
            (true, Some(r)) => {
                digest = digest.wrapping_add(r.digest);
                evals += r.evaluations;
            }
            _ => return Err(format!("worker failed for {}", prop)),
        }
    }
    Ok((digest, evals))
}

/// Runs the same seeds in different processes at worker counts 1, 5 and 16 (twice each) and
/// compares the digests of everything observable (ops, outcomes, address-free observations).
pub fn selftest_determinism(args: &[String]) -> i32 {
    let units: u64 = args.first().and_then(|s| s.parse().ok()).unwrap_or(2000);
    let mut bad = 0;
    let mut total_evals = 0u64;
    for prop in ["C01", "C04", "C05", "C06", "C12", "C13", "C14", "C16", "C17", "C20"] {
        let u = match prop {
            "C16" => units / 4,
            "C17" => units / 16,
            _ => units,
        }
        .max(16);
        let mut seen: Vec<(String, u64, u64)> = Vec::new();
        for (i, w) in [1u64, 5, 16, 16, 5, 1].iter().enumerate() {
            match batch_digest(prop, 7, u, *w, &format!("{}", i)) {
                Ok((d, e)) => seen.push((format!("{} workers (pass {})", w, i), d, e)),
                Err(e) => {
                    eprintln!("harness error: {}", e);
                    return 2;
                }
            }
        }
        let first = seen[0].1;
        let same = seen.iter().all(|x| x.1 == first && x.2 == seen[0].2);
        total_evals += seen[0].2;
        println!("{}: {} units, {} evaluations, digest {:016x} over 6 batches in separate processes (1/5/16/16/5/1 workers): {}", prop, u, seen[0].2, first, if same { "identical" } else { "DIFFERENT" });
        if !same {
            bad += 1;
            for x in &seen {
                println!("   {} -> {:016x} ({} evaluations)", x.0, x.1, x.2);
            }
        }
    }
    println!("determinism self-test: {} evaluations per batch, {} properties diverged", total_evals, bad);
    if bad == 0 {
        0
    } else {
        1
    }
}
