//! Simulated allocator: a counting + refusing shim over `System`.
//!
//! * ledger of live requested bytes / blocks per thread (conservation oracle of C09,
//!   allocation log for C13);
//! * one-shot refusal of the next allocation with `align >= REFUSE_MIN_ALIGN` — armed by the
//!   engine only around `try_reserve`, whose table allocation is fallible; every other allocation
//!   path in lru-mem/hashbrown is infallible and a refusal there would abort, not unwind.
//!
//! All state is thread-local `Cell`s with const initialisers (no allocation, no destructor), so
//! worker threads do not disturb each other's ledgers.

use std::alloc::{GlobalAlloc, Layout, System};
use std::cell::Cell;

pub struct SimAlloc;

thread_local! {
    static LIVE_BYTES: Cell<isize> = const { Cell::new(0) };
    static LIVE_BLOCKS: Cell<isize> = const { Cell::new(0) };
    static TRACK: Cell<bool> = const { Cell::new(false) };
    static REFUSE_ARMED: Cell<bool> = const { Cell::new(false) };
    static REFUSE_MIN_ALIGN: Cell<usize> = const { Cell::new(16) };
    static REFUSED: Cell<u32> = const { Cell::new(0) };
    static BIG_ALLOCS: Cell<u32> = const { Cell::new(0) };
    static LAST_BIG_SIZE: Cell<usize> = const { Cell::new(0) };
}

#[inline]
fn tracking() -> bool {
    TRACK.try_with(|t| t.get()).unwrap_or(false)
}

const SIM_MEMORY: usize = 1 << 40;

unsafe impl GlobalAlloc for SimAlloc {
    unsafe fn alloc(&self, layout: Layout) -> *mut u8 {
        // The simulated machine has less than 1 TiB: a larger request fails the same way in every
        // tier (natively the address-space limit would refuse it, Miri would abort the interpreter).
        if layout.size() > SIM_MEMORY {
            return std::ptr::null_mut();
        }
        if tracking() {
            let armed = REFUSE_ARMED.with(|a| a.get());
            let min_align = REFUSE_MIN_ALIGN.with(|a| a.get());
            if layout.align() >= min_align {
                BIG_ALLOCS.with(|c| c.set(c.get() + 1));
                LAST_BIG_SIZE.with(|c| c.set(layout.size()));
                if armed {
                    REFUSE_ARMED.with(|a| a.set(false));
                    REFUSED.with(|c| c.set(c.get() + 1));
                    return std::ptr::null_mut();
                }
            }
        }
        let p = System.alloc(layout);
        if !p.is_null() && tracking() {
            LIVE_BYTES.with(|c| c.set(c.get() + layout.size() as isize));
            LIVE_BLOCKS.with(|c| c.set(c.get() + 1));
        }
        p
    }

    unsafe fn dealloc(&self, ptr: *mut u8, layout: Layout) {
        System.dealloc(ptr, layout);
        if tracking() {
            LIVE_BYTES.with(|c| c.set(c.get() - layout.size() as isize));
            LIVE_BLOCKS.with(|c| c.set(c.get() - 1));
        }
    }

    unsafe fn alloc_zeroed(&self, layout: Layout) -> *mut u8 {
        let p = self.alloc(layout);
        if !p.is_null() {
            std::ptr::write_bytes(p, 0, layout.size());
        }
        p
    }

    unsafe fn realloc(&self, ptr: *mut u8, layout: Layout, new_size: usize) -> *mut u8 {
        if new_size > SIM_MEMORY {
            return std::ptr::null_mut();
        }
        let p = System.realloc(ptr, layout, new_size);
        if !p.is_null() && tracking() {
            LIVE_BYTES.with(|c| c.set(c.get() + new_size as isize - layout.size() as isize));
        }
        p
    }
}

pub fn set_min_align(a: usize) {
    REFUSE_MIN_ALIGN.with(|c| c.set(a));
}

pub fn set_tracking(on: bool) {
    TRACK.with(|t| t.set(on));
}

pub fn live_bytes() -> isize {
    LIVE_BYTES.with(|c| c.get())
}

pub fn live_blocks() -> isize {
    LIVE_BLOCKS.with(|c| c.get())
}

/// Arms a one-shot refusal of the next allocation with alignment >= `min_align`.
pub fn arm_refusal(min_align: usize) {
    REFUSE_MIN_ALIGN.with(|a| a.set(min_align));
    REFUSE_ARMED.with(|a| a.set(true));
}

/// Disarms; returns whether the refusal is still pending (i.e. did NOT fire).
pub fn disarm_refusal() -> bool {
    let pending = REFUSE_ARMED.with(|a| a.get());
    REFUSE_ARMED.with(|a| a.set(false));
    pending
}

pub fn refused_count() -> u32 {
    REFUSED.with(|c| c.get())
}

pub fn big_allocs() -> u32 {
    BIG_ALLOCS.with(|c| c.get())
}

pub fn last_big_size() -> usize {
    LAST_BIG_SIZE.with(|c| c.get())
}
