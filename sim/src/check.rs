//! Reference model (`spec`) and the per-step oracles of the fault-free mode.
//!
//! The model is applied to the *observed* pre-state of each step (no free-running model that
//! could drift); each property owns one aspect of the comparison so that a break in one aspect
//! is attributed to the property whose statement it contradicts.

use crate::exec::*;
use crate::obs::*;
use crate::ops::*;
use crate::props::*;
use crate::stubs::*;

#[derive(Clone, Debug, PartialEq, Eq)]
pub struct XE {
    pub id: u32,
    pub vtok: u32,
    pub size: usize,
}

/// hashbrown 0.14.5 sizing: capacity of a fresh table created for `n` elements.
pub fn fresh_capacity(n: usize) -> usize {
    if n == 0 {
        return 0;
    }
    let buckets = if n < 8 {
        if n < 4 {
            4
        } else {
            8
        }
    } else {
        match n.checked_mul(8) {
            Some(x) => (x / 7).next_power_of_two(),
            None => return usize::MAX,
        }
    };
    full_capacity(buckets)
}

pub fn full_capacity(buckets: usize) -> usize {
    if buckets <= 1 {
        return 0;
    }
    let mask = buckets - 1;
    if mask < 8 {
        mask
    } else {
        (buckets / 8) * 7
    }
}

#[derive(Clone, Debug, Default)]
pub struct SlotTrack {
    pub peak_len: usize,
    /// largest capacity explicitly requested (as the capacity of the fresh table for it)
    pub max_req_cap: usize,
    /// with_capacity(n) window: (n, capacity at construction, fresh insertions so far)
    pub window: Option<(usize, usize, usize)>,
}

#[derive(Clone, Debug, Default)]
pub struct Tracker {
    pub slots: [SlotTrack; 2],
}

impl Tracker {
    pub fn new_cache(&mut self, slot: usize, cfg: &Config, cap: usize) {
        let mut t = SlotTrack::default();
        if let Ctor::WithCapacityAndHasher(n) = cfg.ctor {
            t.max_req_cap = fresh_capacity(n).max(cap);
            t.window = Some((n, cap, 0));
        }
        self.slots[slot] = t;
    }
}

pub struct Step<'a> {
    pub index: usize,
    pub op: &'a Op,
    pub pre: &'a [Option<Obs>; 2],
    pub post: &'a [Option<Obs>; 2],
    pub outcome: &'a Outcome,
    pub events: &'a [Ev],
    /// tokens created during the op: [created.0, created.1)
    pub created: (u32, u32),
    /// tokens the harness holds (returned by the op)
    pub held: &'a [u32],
    pub refused: bool,
    pub overhead: usize,
    pub cfg: &'a Config,
}

/// What the step offered each property to decide (for the distinct_nontrivial measure).
#[derive(Default, Clone, Copy)]
pub struct Decides(pub Props);

struct Out<'a> {
    v: &'a mut Vec<Viol>,
    step: usize,
}

impl<'a> Out<'a> {
    fn push(&mut self, props: Props, class: &'static str, mut msg: String) {
        if msg.len() > 700 {
            let mut cut = 700;
            while !msg.is_char_boundary(cut) {
                cut -= 1;
            }
            msg.truncate(cut);
            msg.push_str(" ...");
        }
        if self.v.len() < 64 {
            self.v.push(Viol { props, class, msg, step: self.step });
        }
    }
}

fn evict_to(list: &mut Vec<XE>, budget: usize) -> Vec<XE> {
    // remove from the LRU end while the total exceeds `budget`
    let mut total: u128 = list.iter().map(|e| e.size as u128).sum();
    let mut n = 0;
    while total > budget as u128 && n < list.len() {
        total -= list[n].size as u128;
        n += 1;
    }
    list.drain(..n).collect()
}

fn xe(e: &EObs) -> XE {
    XE { id: e.id, vtok: e.vtok, size: e.size }
}

/// sorted copy for O(log n) membership tests (caches of tens of thousands of entries occur)
fn sorted(v: &[u32]) -> Vec<u32> {
    let mut w = v.to_vec();
    w.sort_unstable();
    w
}

fn has(sorted_v: &[u32], x: u32) -> bool {
    sorted_v.binary_search(&x).is_ok()
}

/// id lists in messages: at most 12 elements are spelled out
fn short(v: &[u32]) -> String {
    if v.len() <= 12 {
        format!("{:?}", v)
    } else {
        format!("[{} ids: {:?} .. {:?}]", v.len(), &v[..6], &v[v.len() - 3..])
    }
}

fn count_ev(events: &[Ev], kind: u8) -> usize {
    events.iter().filter(|e| e.kind == kind).count()
}

/// Maps observation findings to properties in the fault-free mode.
pub fn obs_props_normal(c: ObsClass) -> (Props, &'static str) {
    match c {
        ObsClass::Walk => (C07, "walk"),
        ObsClass::Mirror => (C07, "mirror"),
        ObsClass::Lookup => (C04 | C07, "lookup"),
        ObsClass::Token => (C06 | C07, "dead-token"),
        ObsClass::AcctRecordedSum => (C02, "acct-recorded-sum"),
        ObsClass::AcctEntry => (C02, "acct-entry"),
        ObsClass::AcctApi => (C02, "acct-api"),
        ObsClass::Len => (C02, "len"),
        ObsClass::BoundCur => (C01, "bound"),
        ObsClass::BoundSum => (C01, "bound-sum"),
        ObsClass::Views => (C05 | C12, "views"),
        ObsClass::Dup => (C04, "dup"),
    }
}

pub fn check_step(s: &Step, tr: &mut Tracker, viols: &mut Vec<Viol>) -> Decides {
    let mut out = Out { v: viols, step: s.index };
    let mut dec: Props = 0;
    let t = s.op.target as usize;
    let o = 1 - t;
    if matches!(s.outcome, Outcome::Skipped) {
        return Decides(0);
    }
    let pre = match &s.pre[t] {
        Some(p) => p,
        None => return Decides(0),
    };
    let post_t = s.post[t].as_ref();
    let p_list: Vec<XE> = pre.entries.iter().map(xe).collect();
    let max = pre.max;
    let panicked_foreign = matches!(s.outcome, Outcome::Panicked { injected: None, .. });

    // ---------------------------------------------------------------- spec: expected post list
    let mut x: Vec<XE> = p_list.clone();
    let mut expect_evicted: Vec<XE> = Vec::new();
    let mut evicting_op = false;
    let mut state_must_be_unchanged: Props = 0; // full Obs equality required, tagged
    let argk = s.created.0; // insert/try_insert: key token, then value token
    let argv = s.created.0.wrapping_add(1);
    let find = |id: u32| pre.entries.iter().position(|e| e.id == id);

    match &s.op.kind {
        OpKind::Insert { k, kh, vh } => {
            let sz = s.overhead + kh + vh;
            dec |= C10 | C04 | C05 | C02 | C06;
            if sz > max {
                state_must_be_unchanged |= C10;
                match s.outcome {
                    Outcome::InsertErr { k: rk, v: rv, entry_size, max_size } => {
                        if rk.tok != argk || rv.tok != argv || rk.id != *k {
                            out.push(C10, "insert-err-payload", format!("insert error returned key #{} / value #{}, passed in #{} / #{}", rk.tok, rv.tok, argk, argv));
                        }
                        if *entry_size != sz || *max_size != max {
                            out.push(C10, "insert-err-figures", format!("EntryTooLarge reports entry_size {} max_size {}, actual {} / {}", entry_size, max_size, sz, max));
                        }
                    }
                    Outcome::Panicked { .. } => {}
                    _ => out.push(C10, "insert-class", format!("insert of entry_size {} > max_size {} did not fail with EntryTooLarge: {:?}", sz, max, s.outcome)),
                }
            } else {
                evicting_op = true;
                let old = find(*k);
                let exp_ret = old.map(|i| pre.entries[i].vtok);
                match s.outcome {
                    Outcome::InsertOk(r) => {
                        let got = r.as_ref().map(|v| v.tok);
                        if got != exp_ret {
                            out.push(C04, "insert-ret", format!("insert(k{}) returned old value {:?}, sequential map says {:?}", k, got, exp_ret));
                        }
                    }
                    Outcome::InsertErr { .. } => {
                        out.push(C10, "insert-class", format!("insert of entry_size {} <= max_size {} failed: {:?}", sz, max, s.outcome));
                        evicting_op = false;
                    }
                    _ => {}
                }
                if let Some(i) = old {
                    x.remove(i);
                }
                let before: u128 = x.iter().map(|e| e.size as u128).sum();
                expect_evicted = evict_to(&mut x, max - sz);
                x.push(XE { id: *k, vtok: argv, size: sz });
                if matches!(s.outcome, Outcome::InsertErr { .. }) {
                    // mis-classified: expected list is the spec's, comparisons below will differ; keep C10 as the cause
                    x = p_list.clone();
                    expect_evicted.clear();
                }
                let tot = before + sz as u128;
                if tot + 1 >= max as u128 || old.is_some() {
                    dec |= C01 | C03;
                }
            }
        }
        OpKind::TryInsert { k, kh, vh } => {
            let sz = s.overhead + kh + vh;
            dec |= C10 | C04 | C02;
            let free = max.saturating_sub(pre.cur);
            let present = find(*k).is_some();
            let exp = if sz > max {
                Some(TryVariant::TooLarge)
            } else if sz > free {
                Some(TryVariant::WouldEject)
            } else if present {
                Some(TryVariant::Occupied)
            } else {
                None
            };
            match (s.outcome, &exp) {
                (Outcome::TryInsertOk, None) => {
                    x.push(XE { id: *k, vtok: argv, size: sz });
                    // success with size <= free: nothing may depart (checked below, tagged C10|C03)
                }
                (Outcome::TryInsertErr { variant, k: rk, v: rv, entry_size, max_size, free_memory, accessors_ok }, Some(e)) => {
                    state_must_be_unchanged |= C10;
                    if variant != e {
                        out.push(C10, "try-insert-class", format!("try_insert failed with {:?}, expected {:?} (entry_size {}, max {}, free {}, key present {})", variant, e, sz, max, free, present));
                    } else {
                        let ok = match e {
                            TryVariant::TooLarge => *entry_size == Some(sz) && *max_size == Some(max),
                            TryVariant::WouldEject => *entry_size == Some(sz) && *free_memory == Some(free),
                            TryVariant::Occupied => true,
                        };
                        if !ok {
                            out.push(C10, "try-insert-figures", format!("{:?} reports entry_size {:?} max_size {:?} free_memory {:?}; actual entry_size {} max {} free {}", variant, entry_size, max_size, free_memory, sz, max, free));
                        }
                    }
                    if rk.tok != argk || rv.tok != argv || rk.id != *k || !accessors_ok {
                        out.push(C10, "try-insert-payload", format!("try_insert error returned key #{} / value #{} (accessors consistent: {}), passed in #{} / #{}", rk.tok, rv.tok, accessors_ok, argk, argv));
                    }
                }
                (Outcome::TryInsertOk, Some(e)) => {
                    out.push(C10, "try-insert-class", format!("try_insert succeeded, expected {:?} (entry_size {}, max {}, free {}, key present {})", e, sz, max, free, present));
                    // what it did is unspecified; compare against "as if inserted" to avoid collateral noise
                    x = s.post[t].as_ref().map(|p| p.entries.iter().map(xe).collect()).unwrap_or_default();
                }
                (Outcome::TryInsertErr { variant, .. }, None) => {
                    out.push(C10, "try-insert-class", format!("try_insert failed with {:?}, expected success (entry_size {}, max {}, free {}, key present {})", variant, sz, max, free, present));
                    state_must_be_unchanged |= C10;
                }
                _ => {}
            }
        }
        OpKind::Get { k, .. } | OpKind::GetEntry { k, .. } | OpKind::Touch { k, .. } => {
            dec |= C04 | C05;
            let i = find(*k);
            if let Some(i) = i {
                let e = x.remove(i);
                x.push(e);
            }
            let exp = i.map(|i| &pre.entries[i]);
            match s.outcome {
                Outcome::ValRef(r) => {
                    if r.map(|r| r.0) != exp.map(|e| e.vtok) {
                        out.push(C04, "get-ret", format!("get(k{}) returned value {:?}, sequential map says {:?}", k, r.map(|r| r.0), exp.map(|e| e.vtok)));
                    }
                }
                Outcome::EntryRef(r) => {
                    if r.map(|r| (r.0, r.1)) != exp.map(|e| (e.ktok, e.vtok)) {
                        out.push(C04, "get-ret", format!("get_entry(k{}) returned {:?}, sequential map says {:?}", k, r.map(|r| (r.0, r.1)), exp.map(|e| (e.ktok, e.vtok))));
                    }
                }
                _ => {}
            }
        }
        OpKind::GetLru => {
            dec |= C05;
            let exp = pre.entries.first();
            if let Outcome::EntryRef(r) = s.outcome {
                if r.map(|r| (r.0, r.1)) != exp.map(|e| (e.ktok, e.vtok)) {
                    out.push(C05, "get-lru-ret", format!("get_lru returned {:?}, least-recently-used is {:?}", r.map(|r| (r.0, r.1)), exp.map(|e| (e.ktok, e.vtok))));
                }
            }
            if !x.is_empty() {
                let e = x.remove(0);
                x.push(e);
            }
        }
        OpKind::Peek { k, .. } | OpKind::PeekEntry { k, .. } | OpKind::Contains { k, .. } => {
            dec |= C04 | C19 | C05;
            let exp = find(*k).map(|i| &pre.entries[i]);
            match s.outcome {
                Outcome::ValRef(r) => {
                    if *r != exp.map(|e| (e.vtok, e.vaddr)) {
                        out.push(C04, "peek-ret", format!("peek(k{}) returned {:?}, sequential map says {:?}", k, r.map(|r| r.0), exp.map(|e| e.vtok)));
                    }
                }
                Outcome::EntryRef(r) => {
                    if *r != exp.map(|e| (e.ktok, e.vtok, e.kaddr, e.vaddr)) {
                        out.push(C04, "peek-ret", format!("peek_entry(k{}) returned {:?}, sequential map says {:?}", k, r.map(|r| (r.0, r.1)), exp.map(|e| (e.ktok, e.vtok))));
                    }
                }
                Outcome::Bool(b) => {
                    if *b != exp.is_some() {
                        out.push(C04, "contains-ret", format!("contains(k{}) = {}, sequential map says {}", k, b, exp.is_some()));
                    }
                }
                _ => {}
            }
        }
        OpKind::PeekLru | OpKind::PeekMru => {
            dec |= C05 | C19;
            let exp = if matches!(s.op.kind, OpKind::PeekLru) { pre.entries.first() } else { pre.entries.last() };
            if let Outcome::EntryRef(r) = s.outcome {
                if *r != exp.map(|e| (e.ktok, e.vtok, e.kaddr, e.vaddr)) {
                    out.push(C05, "peek-end-ret", format!("{} returned {:?}, expected {:?}", s.op.kind.name(), r.map(|r| (r.0, r.1)), exp.map(|e| (e.ktok, e.vtok))));
                }
            }
        }
        OpKind::Remove { k, .. } | OpKind::RemoveEntry { k, .. } => {
            dec |= C04 | C02 | C06;
            let i = find(*k);
            let exp = i.map(|i| &pre.entries[i]);
            if let Some(i) = i {
                x.remove(i);
            }
            match s.outcome {
                Outcome::RemovedVal(r) => {
                    if r.as_ref().map(|v| v.tok) != exp.map(|e| e.vtok) {
                        out.push(C04, "remove-ret", format!("remove(k{}) returned {:?}, sequential map says {:?}", k, r.as_ref().map(|v| v.tok), exp.map(|e| e.vtok)));
                    }
                }
                Outcome::RemovedEntry(r) => {
                    if r.as_ref().map(|(k, v)| (k.tok, v.tok)) != exp.map(|e| (e.ktok, e.vtok)) {
                        out.push(C04, "remove-ret", format!("remove_entry(k{}) returned {:?}, sequential map says {:?}", k, r.as_ref().map(|(k, v)| (k.tok, v.tok)), exp.map(|e| (e.ktok, e.vtok))));
                    }
                }
                _ => {}
            }
        }
        OpKind::RemoveLru | OpKind::RemoveMru => {
            dec |= C04 | C05 | C02 | C06;
            let lru = matches!(s.op.kind, OpKind::RemoveLru);
            let exp = if lru { pre.entries.first() } else { pre.entries.last() };
            if !x.is_empty() {
                if lru {
                    x.remove(0);
                } else {
                    x.pop();
                }
            }
            if let Outcome::RemovedEntry(r) = s.outcome {
                if r.as_ref().map(|(k, v)| (k.tok, v.tok)) != exp.map(|e| (e.ktok, e.vtok)) {
                    out.push(C04 | C05, "remove-end-ret", format!("{} returned {:?}, expected {:?}", s.op.kind.name(), r.as_ref().map(|(k, v)| (k.tok, v.tok)), exp.map(|e| (e.ktok, e.vtok))));
                }
            }
        }
        OpKind::Mutate { k, vh, .. } => {
            dec |= C11 | C02 | C05;
            let calls: Vec<&Ev> = s.events.iter().filter(|e| e.kind == EV_CLOSURE).collect();
            match find(*k) {
                None => {
                    if !calls.is_empty() {
                        out.push(C11, "mutate-closure-absent", format!("mutate(k{}) on an absent key called the closure {} times", k, calls.len()));
                    }
                    if !matches!(s.outcome, Outcome::MutateOk(None) | Outcome::Panicked { .. }) {
                        out.push(C11, "mutate-ret", format!("mutate(k{}) on an absent key returned {:?}", k, s.outcome));
                    }
                }
                Some(i) => {
                    let e = &pre.entries[i];
                    if calls.len() != 1 || calls[0].a != e.vtok {
                        out.push(C11, "mutate-closure-calls", format!("mutate(k{}): closure called {} times (on value {:?}), expected once on #{}", k, calls.len(), calls.first().map(|c| c.a), e.vtok));
                    }
                    let new_size = e.size.saturating_sub(e.vheap).saturating_add(*vh);
                    x.remove(i);
                    if new_size > max {
                        dec |= C06;
                        match s.outcome {
                            Outcome::MutateErr { k: rk, v: rv, old_entry_size, new_entry_size, max_size } => {
                                if rk.tok != e.ktok || rv.tok != e.vtok || rv.heap != *vh {
                                    out.push(C11, "mutate-err-payload", format!("MutateError returned key #{} value #{} (heap {}), stored were #{} / #{} (mutated heap {})", rk.tok, rv.tok, rv.heap, e.ktok, e.vtok, vh));
                                }
                                if *old_entry_size != e.size || *new_entry_size != new_size || *max_size != max {
                                    out.push(C11, "mutate-err-figures", format!("MutateError reports old {} new {} max {}; actual old {} new {} max {}", old_entry_size, new_entry_size, max_size, e.size, new_size, max));
                                }
                            }
                            Outcome::Panicked { .. } => {}
                            _ => out.push(C11, "mutate-class", format!("mutate grew entry to {} > max_size {} but returned {:?}", new_size, max, s.outcome)),
                        }
                    } else {
                        match s.outcome {
                            Outcome::MutateOk(Some((_c, seen))) => {
                                if *seen != e.vtok {
                                    out.push(C11, "mutate-ret", format!("mutate(k{}) forwarded a result computed on value #{}, stored value is #{}", k, seen, e.vtok));
                                }
                            }
                            Outcome::Panicked { .. } => {}
                            _ => out.push(C11, "mutate-class", format!("mutate to entry size {} <= max_size {} returned {:?}", new_size, max, s.outcome)),
                        }
                        if new_size > e.size {
                            evicting_op = true;
                            dec |= C03 | C01;
                        }
                        expect_evicted = evict_to(&mut x, max - new_size);
                        x.push(XE { id: *k, vtok: e.vtok, size: new_size });
                        // accounted size of the mutated entry
                        if let Some(pe) = post_t.and_then(|p| p.entries.iter().find(|q| q.id == *k)) {
                            if pe.recorded != new_size && pe.size == new_size {
                                out.push(C11 | C02, "mutate-recorded", format!("after mutate(k{}) the entry's accounted size is {}, the new entry size is {}", k, pe.recorded, new_size));
                            }
                        }
                    }
                }
            }
        }
        OpKind::SetMaxSize { m } => {
            dec |= C01 | C03;
            evicting_op = true;
            expect_evicted = evict_to(&mut x, *m);
            if let Some(p) = post_t {
                if p.max != *m && !matches!(s.outcome, Outcome::Panicked { .. }) {
                    out.push(C01 | C03, "set-max", format!("after set_max_size({}) max_size() is {}", m, p.max));
                }
            }
        }
        OpKind::Retain { keep, .. } => {
            dec |= C15 | C02 | C06;
            let calls: Vec<(u32, u32)> = s.events.iter().filter(|e| e.kind == EV_PRED).map(|e| (e.a, e.b)).collect();
            let exp: Vec<(u32, u32)> = pre.entries.iter().map(|e| (e.ktok, e.vtok)).collect();
            if calls != exp {
                out.push(C15, "retain-calls", format!("retain called the predicate on {:?} (key#, value#), entries in LRU order are {:?}", calls, exp));
            }
            let mut i = 0;
            x.retain(|_| {
                let r = keep.get(i).copied().unwrap_or(true);
                i += 1;
                r
            });
            // "len and current_size reflect the removals"
            if let Some(p) = post_t {
                let exp_cur: u128 = x.iter().map(|e| e.size as u128).sum();
                let pre_consistent = pre.cur == pre.sum_sizes();
                if pre_consistent && !p.broken && !matches!(s.outcome, Outcome::Panicked { .. }) && (p.cur as u128 != exp_cur || p.len != x.len()) {
                    out.push(C15, "retain-totals", format!("after retain len = {} and current_size = {}; the survivors are {} entries of total size {}", p.len, p.cur, x.len(), exp_cur));
                }
            }
        }
        OpKind::Clear => {
            dec |= C02 | C06;
            x.clear();
        }
        OpKind::Reserve { a } | OpKind::TryReserve { a, .. } => {
            dec |= C13;
            let want = pre.len.checked_add(*a);
            match s.outcome {
                Outcome::Reserve(Ok(())) => {
                    if let Some(p) = post_t {
                        match want {
                            Some(w) if p.cap >= w => {}
                            _ => out.push(C13, "reserve-bound", format!("{}({}) succeeded with len {} but capacity is {}", s.op.kind.name(), a, pre.len, p.cap)),
                        }
                    }
                    if s.refused {
                        out.push(C13, "reserve-refused-ok", "try_reserve reported success although the allocator refused the table allocation".into());
                    }
                }
                Outcome::Reserve(Err(code)) => {
                    state_must_be_unchanged |= C13;
                    let huge = *a >= (1usize << 36);
                    if !s.refused && !huge {
                        out.push(C13, "reserve-spurious-fail", format!("try_reserve({}) failed (code {}) with no allocator refusal and no overflow", a, code));
                    }
                }
                Outcome::Panicked { injected: None, msg } => {
                    // `reserve` documents a panic when the allocation size overflows
                    let huge = *a >= (1usize << 36);
                    if !huge || !matches!(s.op.kind, OpKind::Reserve { .. }) {
                        out.push(C13, "reserve-panic", format!("{}({}) panicked: {}", s.op.kind.name(), a, msg));
                    }
                }
                _ => {}
            }
        }
        OpKind::ShrinkTo { .. } | OpKind::ShrinkToFit => {
            dec |= C13;
            let c = if let OpKind::ShrinkTo { c } = s.op.kind { c } else { 0 };
            let floor = pre.len.max(c);
            if let Some(p) = post_t {
                if p.cap > pre.cap {
                    // known-finding signature is evaluated by the runner from this class + message fields
                    let tomb = pre.cap < full_capacity(pre.buckets());
                    let minimal = p.cap == fresh_capacity(floor);
                    out.push(
                        C13,
                        if tomb && minimal { "shrink-raises-capacity-tombstones" } else { "shrink-raises-capacity" },
                        format!("{} raised capacity from {} to {} (len {}, min_capacity {}, buckets {} -> {}, tombstones before: {})", s.op.kind.name(), pre.cap, p.cap, pre.len, c, pre.buckets(), p.buckets(), tomb),
                    );
                }
                if pre.cap >= floor && p.cap < floor {
                    out.push(C13, "shrink-below-floor", format!("{} left capacity {} < max(len {}, min_capacity {})", s.op.kind.name(), p.cap, pre.len, c));
                }
            }
        }
        OpKind::CloneTo | OpKind::CloneFrom => {
            dec |= C14 | C19 | C06;
        }
        OpKind::IterScript { kind, script, end, skips } => {
            dec |= C12;
            if kind.borrowing() {
                dec |= C19;
            } else {
                dec |= C06;
            }
            // expected yields: `next`/`next_back` take one element from their end; `nth(k)`/`nth_back(k)`
            // first skip k (consuming them), exactly as k + 1 plain calls would
            let mut i = 0usize;
            let mut j = pre.entries.len();
            let item_ok = |item: &IterItem, exp: Option<&EObs>| match (item, exp) {
                (IterItem::None, None) => true,
                (IterItem::Pair { ktok, vtok, kaddr, vaddr }, Some(e)) => *ktok == e.ktok && *vtok == e.vtok && (*kaddr == 0 || (*kaddr == e.kaddr && *vaddr == e.vaddr)),
                (IterItem::Key { ktok, kaddr }, Some(e)) => *ktok == e.ktok && (*kaddr == 0 || *kaddr == e.kaddr),
                (IterItem::Val { vtok, vaddr }, Some(e)) => *vtok == e.vtok && (*vaddr == 0 || *vaddr == e.vaddr),
                _ => false,
            };
            if let Outcome::Iter(items) = s.outcome {
                let mut bad = false;
                for (n, (&front, item)) in script.iter().zip(items.iter()).enumerate() {
                    let k = skips.get(n).copied().unwrap_or(0) as usize;
                    let exp = if front {
                        i = (i + k).min(j);
                        if i < j {
                            i += 1;
                            Some(&pre.entries[i - 1])
                        } else {
                            None
                        }
                    } else {
                        j = j.saturating_sub(k).max(i);
                        if i < j {
                            j -= 1;
                            Some(&pre.entries[j])
                        } else {
                            None
                        }
                    };
                    if !item_ok(item, exp) {
                        let call = match (front, k) {
                            (true, 0) => "next()".to_string(),
                            (false, 0) => "next_back()".to_string(),
                            (true, k) => format!("nth({})", k),
                            (false, k) => format!("nth_back({})", k),
                        };
                        out.push(C12, "iter-yield", format!("{}: call {} ({}) yielded {:?}, expected {:?}", kind.name(), n, call, item, exp.map(|e| (e.ktok, e.vtok))));
                        bad = true;
                        break;
                    }
                }
                // terminal consumption through a provided method
                let rest = &items[script.len().min(items.len())..];
                if !bad {
                    match end {
                        EndMode::Count => {
                            if rest != [IterItem::Count(j - i)] {
                                out.push(C12, "iter-count", format!("{}: count() after the script returned {:?}, {} entries were left", kind.name(), rest, j - i));
                            }
                        }
                        EndMode::Last => {
                            let exp = if i < j { Some(&pre.entries[j - 1]) } else { None };
                            if rest.len() != 1 || !item_ok(&rest[0], exp) {
                                out.push(C12, "iter-last", format!("{}: last() after the script returned {:?}, expected {:?}", kind.name(), rest, exp.map(|e| (e.ktok, e.vtok))));
                            }
                        }
                        EndMode::RFold => {
                            let ok = rest.len() == j - i && rest.iter().zip(pre.entries[i..j].iter().rev()).all(|(it, e)| item_ok(it, Some(e)));
                            if !ok {
                                out.push(C12, "iter-rfold", format!("{}: rfold() after the script visited {} items, the remaining {} entries in reverse order were expected", kind.name(), rest.len(), j - i));
                            }
                        }
                        EndMode::Fold => {
                            let ok = rest.len() == j - i && rest.iter().zip(pre.entries[i..j].iter()).all(|(it, e)| item_ok(it, Some(e)));
                            if !ok {
                                out.push(C12, "iter-fold", format!("{}: fold() after the script visited {} items, the remaining {} entries in order were expected", kind.name(), rest.len(), j - i));
                            }
                        }
                        _ => {}
                    }
                }
            }
            if !kind.borrowing() && *end != EndMode::Forget {
                x.clear();
                if *kind == IterKind::Drain {
                    if let Some(p) = post_t {
                        if p.len != 0 || p.cur != 0 {
                            out.push(C12 | C02, "drain-not-empty", format!("after the drain was dropped len = {}, current_size = {}", p.len, p.cur));
                        }
                        if p.cap != pre.cap {
                            // capacity retained: not a stated requirement; recorded as a probe only
                        }
                    }
                }
            } else if !kind.borrowing() {
                x.clear(); // forget: contents unspecified; relaxed mode handles it
            }
        }
        OpKind::DebugFmt => {
            dec |= C05 | C19;
            if let Outcome::Debug(sg) = s.outcome {
                let mut exp = String::from("{");
                for (i, e) in pre.entries.iter().enumerate() {
                    if i > 0 {
                        exp.push_str(", ");
                    }
                    exp.push_str(&format!("k{}: v{}", e.id, e.vtok));
                }
                exp.push('}');
                // only the ORDER is this property's business: compare the sequence of keys shown
                let mut parts = sg.split('\u{1}');
                let plain = parts.next().unwrap_or("");
                let pretty = parts.next().unwrap_or("");
                if debug_key_sequence(plain) != pre.ids() || debug_key_sequence(pretty) != pre.ids() {
                    out.push(C05, "debug-order", format!("Debug output {} differs from recency order {}", plain, exp));
                }
            }
        }
        OpKind::Getters => {
            dec |= C19;
            if let Outcome::Getters { len, is_empty, cur, max: m, cap, hasher_ok } = s.outcome {
                if *len != pre.len || *is_empty != pre.is_empty || *cur != pre.cur || *m != pre.max || *cap != pre.cap || !hasher_ok {
                    out.push(C19, "getters", "getters returned different values on consecutive calls".into());
                }
            }
        }
        OpKind::DropCache | OpKind::DropCacheUnwinding => {
            dec |= C06;
            x.clear();
        }
    }
    let _ = panicked_foreign;

    // ---------------------------------------------------------------- generic comparison X vs actual
    let slot_replaced = matches!(s.op.kind, OpKind::DropCache | OpKind::DropCacheUnwinding) || matches!(&s.op.kind, OpKind::IterScript { kind, .. } if kind.consumes_cache());
    if let Some(post) = post_t {
        if !post.broken {
            let a_list: Vec<XE> = post.entries.iter().map(xe).collect();
            let ids_x: Vec<u32> = x.iter().map(|e| e.id).collect();
            let ids_a: Vec<u32> = a_list.iter().map(|e| e.id).collect();
            let set_x = sorted(&ids_x);
            let set_a = sorted(&ids_a);
            // id -> index into a_list
            let mut idx_a: Vec<(u32, usize)> = a_list.iter().enumerate().map(|(i, e)| (e.id, i)).collect();
            idx_a.sort_unstable();
            let find_a = |id: u32| idx_a.binary_search_by_key(&id, |p| p.0).ok().map(|j| &a_list[idx_a[j].1]);
            let is_retain = matches!(s.op.kind, OpKind::Retain { .. });
            let is_forget = matches!(&s.op.kind, OpKind::IterScript { end: EndMode::Forget, .. });
            if !is_forget {
                // departures the spec does not ask for
                let missing: Vec<u32> = ids_x.iter().copied().filter(|i| !has(&set_a, *i)).collect();
                if !missing.is_empty() {
                    let mut props = C03;
                    let mut class = "unexpected-departure";
                    if evicting_op {
                        class = "evicted-too-much";
                    } else {
                        // not an eviction for room: the map lost a key nobody removed
                        props |= C04;
                    }
                    match &s.op.kind {
                        OpKind::TryInsert { .. } => props |= C10,
                        OpKind::Mutate { .. } => props |= C11,
                        OpKind::Retain { .. } => props |= C15,
                        OpKind::Reserve { .. } | OpKind::TryReserve { .. } | OpKind::ShrinkTo { .. } | OpKind::ShrinkToFit => props |= C13,
                        _ => {}
                    }
                    if s.op.kind.is_shared_ref_op() {
                        props |= C19;
                    }
                    out.push(props, class, format!("{}: keys {} left the cache; expected contents (LRU first) {}, actual {}", s.op.kind.name(), short(&missing), short(&ids_x), short(&ids_a)));
                }
                // entries that should be gone but are present
                let extra: Vec<u32> = ids_a.iter().copied().filter(|i| !has(&set_x, *i)).collect();
                if !extra.is_empty() && !slot_replaced {
                    let evicted_ids: Vec<u32> = expect_evicted.iter().map(|e| e.id).collect();
                    let all_should_evict = extra.iter().all(|i| evicted_ids.contains(i));
                    let (props, class) = if evicting_op && all_should_evict {
                        (C03, "evicted-too-little")
                    } else if is_retain {
                        (C15, "retain-kept-rejected")
                    } else if matches!(s.op.kind, OpKind::Mutate { .. }) {
                        (C11, "mutate-overflow-not-removed")
                    } else {
                        (C04, "entry-not-removed")
                    };
                    out.push(props, class, format!("{}: keys {} are still present; expected contents (LRU first) {}, actual {}", s.op.kind.name(), short(&extra), short(&ids_x), short(&ids_a)));
                } else if !extra.is_empty() {
                    out.push(C04 | C12, "fresh-cache-not-empty", format!("{}: fresh cache is not empty: {:?}", s.op.kind.name(), ids_a));
                }
                // values of common keys
                for e in &x {
                    if let Some(a) = find_a(e.id) {
                        if a.vtok != e.vtok {
                            out.push(C04, "wrong-value", format!("{}: key {} maps to value #{}, the value most recently stored is #{}", s.op.kind.name(), e.id, a.vtok, e.vtok));
                            break;
                        }
                    }
                }
                // order of common keys
                let cx: Vec<u32> = ids_x.iter().copied().filter(|i| has(&set_a, *i)).collect();
                let ca: Vec<u32> = ids_a.iter().copied().filter(|i| has(&set_x, *i)).collect();
                if cx != ca {
                    let mut props = C05;
                    match &s.op.kind {
                        OpKind::Mutate { .. } => props |= C11,
                        OpKind::Retain { .. } => props |= C15,
                        OpKind::Reserve { .. } | OpKind::TryReserve { .. } | OpKind::ShrinkTo { .. } | OpKind::ShrinkToFit => props |= C13,
                        _ => {}
                    }
                    if s.op.kind.is_shared_ref_op() {
                        props |= C19;
                    }
                    out.push(props, "order", format!("{}: recency order (LRU first) is {}, expected {}", s.op.kind.name(), short(&ca), short(&cx)));
                }
                // eviction order: evicted entries must be dropped oldest first
                if evicting_op && expect_evicted.len() >= 2 {
                    let mut pre_by_id: Vec<(u32, u32)> = pre.entries.iter().map(|p| (p.id, p.ktok)).collect();
                    pre_by_id.sort_unstable();
                    let toks: Vec<u32> = expect_evicted.iter().filter_map(|e| pre_by_id.binary_search_by_key(&e.id, |p| p.0).ok().map(|j| pre_by_id[j].1)).collect();
                    let tok_set = sorted(&toks);
                    let drops: Vec<u32> = s.events.iter().filter(|e| e.kind == EV_DROP_K && has(&tok_set, e.a)).map(|e| e.a).collect();
                    if drops.len() == toks.len() && drops != toks {
                        out.push(C03, "eviction-order", format!("{}: evicted keys were dropped in order {:?}, oldest-first order is {:?}", s.op.kind.name(), drops, toks));
                    }
                }
                // sizes of common keys (transparency / accounting deltas)
                if s.op.kind.is_capacity_op() {
                    for e in &x {
                        if let Some(a) = find_a(e.id) {
                            if a.size != e.size {
                                out.push(C13, "capacity-op-size", format!("{} changed the size of key {} from {} to {}", s.op.kind.name(), e.id, e.size, a.size));
                                break;
                            }
                        }
                    }
                    if post.cur != pre.cur || post.max != pre.max {
                        out.push(C13, "capacity-op-totals", format!("{} changed current_size {} -> {} or max_size {} -> {}", s.op.kind.name(), pre.cur, post.cur, pre.max, post.max));
                    }
                }
            }
            // exact accounting delta named in C02: expected total vs reported
            if !is_forget && !slot_replaced {
                let exp_total: u128 = x.iter().map(|e| e.size as u128).sum();
                let ids_match = set_x == set_a;
                if ids_match && post.cur as u128 != exp_total && post.cur == post.sum_sizes() {
                    // contents as expected but sizes differ from the model: a size changed outside mutate
                    out.push(C02, "acct-delta", format!("{}: current_size {} but the model's total for the same contents is {}", s.op.kind.name(), post.cur, exp_total));
                }
            }
        }
    }

    // ---------------------------------------------------------------- state unchanged requirements
    let mut unchanged = state_must_be_unchanged;
    if s.op.kind.is_shared_ref_op() {
        unchanged |= C19;
        if matches!(s.op.kind, OpKind::IterScript { .. }) {
            // "borrowing iterators change nothing"
            unchanged |= C12;
        }
        if s.op.kind.is_clone() {
            unchanged |= C14;
        }
    }
    if unchanged != 0 && !matches!(s.outcome, Outcome::Panicked { .. }) {
        if let (Some(a), Some(b)) = (&s.pre[t], &s.post[t]) {
            // C19 / C14 / C13 ask for "exactly as it was" (structure included); a rejected insertion
            // (C10) only for contents, order and sizes: capacity and addresses are not compared there
            let strict = unchanged & !C10;
            let same_contents = a.len == b.len
                && a.cur == b.cur
                && a.max == b.max
                && a.entries.len() == b.entries.len()
                && a.entries.iter().zip(b.entries.iter()).all(|(x, y)| x.id == y.id && x.ktok == y.ktok && x.vtok == y.vtok && x.size == y.size && x.recorded == y.recorded);
            if strict != 0 && a != b {
                out.push(strict | if same_contents { 0 } else { unchanged & C10 }, "state-changed", format!("{}: cache state differs after the call: {}", s.op.kind.name(), diff_obs(a, b)));
            } else if unchanged & C10 != 0 && !same_contents {
                out.push(C10, "state-changed", format!("{}: cache state differs after the call: {}", s.op.kind.name(), diff_obs(a, b)));
            }
        }
    }
    if s.op.kind.is_shared_ref_op() {
        // no drop may happen inside a &self operation except of instances it created itself
        // (clone: the previous occupant of the other slot is dropped by the harness)
        let replaced: Vec<u32> = if s.op.kind.is_clone() {
            s.pre[o].as_ref().map(|p| p.entries.iter().flat_map(|e| [e.ktok, e.vtok]).collect()).unwrap_or_default()
        } else {
            Vec::new()
        };
        for e in s.events {
            if (e.kind == EV_DROP_K || e.kind == EV_DROP_V) && !(e.a >= s.created.0 && e.a < s.created.1) && !replaced.contains(&e.a) {
                out.push(C19 | C06, "shared-op-drops", format!("{} dropped instance #{} that it did not create", s.op.kind.name(), e.a));
                break;
            }
        }
    }

    // ---------------------------------------------------------------- C14: the other cache
    if !s.op.kind.is_clone() {
        if let (Some(a), Some(b)) = (&s.pre[o], &s.post[o]) {
            dec |= C14;
            if a != b {
                out.push(C14, "other-cache-changed", format!("{} on cache {} changed cache {}: {}", s.op.kind.name(), t, o, diff_obs(a, b)));
            }
            // callbacks on the other cache's instances
            let mut other: Vec<u32> = a.entries.iter().flat_map(|e| [e.ktok, e.vtok]).collect();
            other.sort_unstable();
            for e in s.events {
                let hit = match e.kind {
                    EV_HASH_KEY | EV_BORROW | EV_HEAP_K | EV_HEAP_V | EV_DROP_K | EV_DROP_V | EV_CLOSURE | EV_CLONE_K | EV_CLONE_V | EV_DEBUG => other.binary_search(&e.a).is_ok(),
                    EV_EQ_KK | EV_PRED => other.binary_search(&e.a).is_ok() || other.binary_search(&e.b).is_ok(),
                    _ => false,
                };
                if hit {
                    out.push(C14, "other-cache-touched", format!("{} on cache {} invoked user code (event kind {}) on an instance owned by cache {}", s.op.kind.name(), t, e.kind, o));
                    break;
                }
            }
        }
    } else if let (Some(src), Some(cl)) = (&s.post[t], &s.post[o]) {
        if !matches!(s.outcome, Outcome::Panicked { .. }) && !cl.broken {
            let same = src.entries.len() == cl.entries.len()
                && src.entries.iter().zip(cl.entries.iter()).all(|(a, b)| a.id == b.id && a.size == b.size && a.kheap == b.kheap && a.vheap == b.vheap && a.recorded == b.recorded);
            if !same {
                out.push(C14, "clone-differs", format!("clone has entries {:?}, source {:?} (id, entry size, accounted size; LRU first)", cl.entries.iter().map(|e| (e.id, e.size, e.recorded)).collect::<Vec<_>>(), src.entries.iter().map(|e| (e.id, e.size, e.recorded)).collect::<Vec<_>>()));
            }
            if cl.cur != src.cur || cl.max != src.max || cl.len != src.len {
                out.push(C14, "clone-totals", format!("clone: len {} current_size {} max_size {}; source: {} {} {}", cl.len, cl.cur, cl.max, src.len, src.cur, src.max));
            }
            if cl.cap < src.cap {
                out.push(C14, "clone-capacity", format!("clone capacity {} < source capacity {}", cl.cap, src.cap));
            }
            // fresh copies: every token in the clone was produced by Clone::clone of the corresponding source token
            if same {
                for (a, b) in src.entries.iter().zip(cl.entries.iter()) {
                    // "each owns its own copies": the clone's instances were created during this call
                    // (`clone_from` may legitimately reuse storage the destination already owned)
                    let from = matches!(s.op.kind, OpKind::CloneFrom);
                    let kc = from || (b.ktok >= s.created.0 && b.ktok < s.created.1);
                    let vc = from || (b.vtok >= s.created.0 && b.vtok < s.created.1);
                    if !kc || !vc || a.ktok == b.ktok || a.vtok == b.vtok || a.kaddr == b.kaddr {
                        out.push(C14, "clone-not-own-copy", format!("clone entry for key {} does not hold its own copies (key #{} from #{}, value #{} from #{})", a.id, b.ktok, a.ktok, b.vtok, a.vtok));
                        break;
                    }
                }
            }
        }
    }

    // ---------------------------------------------------------------- C06: conservation of instances
    {
        let is_forget = matches!(&s.op.kind, OpKind::IterScript { end: EndMode::Forget, .. });
        let injected = matches!(s.outcome, Outcome::Panicked { injected: Some(_), .. });
        if !is_forget && !injected {
            let mut inn: Vec<u32> = Vec::new();
            for p in s.pre.iter().flatten() {
                for e in &p.entries {
                    inn.push(e.ktok);
                    inn.push(e.vtok);
                }
            }
            for tk in s.created.0..s.created.1 {
                inn.push(tk);
            }
            inn.sort_unstable();
            let mut outt: Vec<u32> = Vec::new();
            let mut broken = false;
            for p in s.post.iter().flatten() {
                if p.broken {
                    broken = true;
                }
                for e in &p.entries {
                    outt.push(e.ktok);
                    outt.push(e.vtok);
                }
            }
            outt.extend_from_slice(s.held);
            outt.sort_unstable();
            if !broken {
                let mut props = C06;
                if matches!(s.op.kind, OpKind::IterScript { .. }) {
                    props |= C12;
                }
                if matches!(s.op.kind, OpKind::Retain { .. }) {
                    props |= C15;
                }
                for w in outt.windows(2) {
                    if w[0] == w[1] {
                        out.push(props | C07, "instance-twice", format!("{}: instance #{} is both in a cache and handed to the caller (or present twice)", s.op.kind.name(), w[0]));
                        break;
                    }
                }
                let mut drops: Vec<u32> = s.events.iter().filter(|e| e.kind == EV_DROP_K || e.kind == EV_DROP_V).map(|e| e.a).collect();
                drops.sort_unstable();
                for &tk in &outt {
                    if inn.binary_search(&tk).is_err() {
                        out.push(props | C07, "instance-from-nowhere", format!("{}: instance #{} appeared that was neither stored before nor created by the call", s.op.kind.name(), tk));
                        break;
                    }
                    if drops.binary_search(&tk).is_ok() {
                        out.push(props | C07, "live-instance-dropped", format!("{}: instance #{} was dropped but is still stored / was handed to the caller", s.op.kind.name(), tk));
                        break;
                    }
                }
                // An instance that left the cache without being handed back must be dropped — at the latest
                // when everything is gone (end-of-run oracle `never-dropped`).  Only where a statement fixes
                // the moment ("owning iterators drop whatever was not consumed", retain: "gone (and
                // dropped)", dropping the cache) is a missing drop reported at the step itself.
                let timed = matches!(s.op.kind, OpKind::IterScript { .. } | OpKind::Retain { .. } | OpKind::DropCache | OpKind::DropCacheUnwinding | OpKind::Clear);
                if timed {
                    for &tk in &inn {
                        if outt.binary_search(&tk).is_err() && drops.binary_search(&tk).is_err() {
                            out.push(props, "instance-lost", format!("{}: instance #{} left the cache but was neither dropped nor handed back (leak)", s.op.kind.name(), tk));
                            break;
                        }
                    }
                }
            }
        }
    }

    // ---------------------------------------------------------------- C20: hashing work
    if !matches!(s.outcome, Outcome::Panicked { .. }) {
        dec |= C20;
        let hashes = count_ev(s.events, EV_HASH_ID);
        let departed = match post_t {
            Some(p) if !slot_replaced => {
                let post_k = sorted(&p.entries.iter().map(|q| q.ktok).collect::<Vec<_>>());
                pre.entries.iter().filter(|e| !has(&post_k, e.ktok)).count()
            }
            _ => 0,
        };
        let grew = match (post_t, &s.op.kind) {
            (Some(p), OpKind::Insert { .. } | OpKind::TryInsert { .. }) => p.table_ptr() != pre.table_ptr() || p.buckets() != pre.buckets(),
            _ => false,
        };
        // "Traversals, clear, drain and the LRU/MRU peeks hash nothing" (Debug formatting is a traversal);
        // everything else, including the plain getters and dropping the cache, falls under the general bound
        let zero_ops = matches!(s.op.kind, OpKind::IterScript { .. } | OpKind::Clear | OpKind::PeekLru | OpKind::PeekMru | OpKind::DebugFmt);
        let departed = if matches!(s.op.kind, OpKind::DropCache | OpKind::DropCacheUnwinding) { pre.len } else { departed };
        let bound = if zero_ops {
            0
        } else if s.op.kind.is_capacity_op() || s.op.kind.is_clone() {
            2 + pre.len
        } else if grew {
            2 + departed + post_t.map(|p| p.len.saturating_sub(1)).unwrap_or(0)
        } else {
            2 + departed
        };
        if hashes > bound {
            out.push(C20, "hash-count", format!("{} computed {} key hashes; bound is {} (len {}, {} entries left, table rebuilt: {})", s.op.kind.name(), hashes, bound, pre.len, departed, grew || s.op.kind.is_capacity_op()));
        }
        // "operations that rebuild the table additionally hash each held entry, once": in a
        // rebuilding operation no key that stays in the cache may be hashed twice (the count bound
        // alone would let one entry be hashed twice if another were skipped)
        let rebuild_op = grew || s.op.kind.is_capacity_op() || s.op.kind.is_clone();
        if rebuild_op {
            if let Some(p) = post_t {
                let pre_k = sorted(&pre.entries.iter().map(|q| q.ktok).collect::<Vec<_>>());
                let post_k = sorted(&p.entries.iter().map(|q| q.ktok).collect::<Vec<_>>());
                let mut stored: Vec<u32> = s.events.iter().filter(|e| e.kind == EV_HASH_KEY).map(|e| e.a).filter(|a| has(&pre_k, *a) && has(&post_k, *a)).collect();
                stored.sort_unstable();
                for w in stored.windows(2) {
                    if w[0] == w[1] {
                        out.push(C20, "hash-twice", format!("{} rebuilt the table and hashed held key #{} more than once", s.op.kind.name(), w[0]));
                        break;
                    }
                }
            }
        }
    }

    // ---------------------------------------------------------------- C13: capacity aspects
    if let Some(post) = post_t {
        let trk = &mut tr.slots[t];
        if slot_replaced {
            *trk = SlotTrack::default();
            {
                if let Ctor::WithCapacityAndHasher(n) = s.cfg.ctor {
                    trk.max_req_cap = fresh_capacity(n).max(post.cap);
                    trk.window = Some((n, post.cap, 0));
                }
            }
        }
        // explicit requests
        match &s.op.kind {
            OpKind::Reserve { a } | OpKind::TryReserve { a, .. } => {
                if let Some(w) = pre.len.checked_add(*a) {
                    if w < (1usize << 36) && matches!(s.outcome, Outcome::Reserve(Ok(()))) {
                        // whatever an explicit request produced counts as explicitly requested
                        trk.max_req_cap = trk.max_req_cap.max(fresh_capacity(w)).max(post.cap);
                    }
                }
            }
            _ => {}
        }
        // with_capacity window
        if slot_replaced {
            // fresh cache: window starts now
        } else if let Some((n, cap0, ins)) = trk.window {
            let post_k = sorted(&post.entries.iter().map(|q| q.ktok).collect::<Vec<_>>());
            let departed = pre.entries.iter().any(|e| !has(&post_k, e.ktok));
            let fresh_insert = matches!(s.outcome, Outcome::InsertOk(None) | Outcome::TryInsertOk) && post.len == pre.len + 1;
            if departed || s.op.kind.is_capacity_op() {
                trk.window = None;
            } else {
                let ins2 = ins + fresh_insert as usize;
                if ins2 <= n {
                    dec |= C13;
                    if post.cap != cap0 {
                        out.push(C13, "with-capacity-window", format!("cache created with_capacity({}) had capacity {}; after {} fresh insertions (nothing departed) capacity is {}", n, cap0, ins2, post.cap));
                        trk.window = None;
                    } else {
                        trk.window = Some((n, cap0, ins2));
                    }
                } else {
                    trk.window = None;
                }
            }
        }
        // auto growth
        if matches!(s.op.kind, OpKind::Insert { .. } | OpKind::TryInsert { .. }) && !post.broken {
            let grew = post.table_ptr() != pre.table_ptr() || post.buckets() != pre.buckets();
            if grew && matches!(s.outcome, Outcome::InsertOk(_) | Outcome::TryInsertOk) {
                dec |= C13;
                let held = post.len.saturating_sub(1);
                let want = fresh_capacity((2 * held).max(1));
                if post.cap != want {
                    out.push(C13, "auto-growth-size", format!("automatic growth with {} held entries took capacity {} -> {}; the smallest table for twice the entries has capacity {}", held, pre.cap, post.cap, want));
                }
            }
        }
        trk.peak_len = trk.peak_len.max(post.len).max(pre.len);
        if !post.broken {
            let limit = (4 * trk.peak_len).max(16);
            if !(post.cap < limit || post.cap <= trk.max_req_cap) {
                out.push(C13, "capacity-bound", format!("capacity {} is not below max(4 x peak len {}, 16) = {} nor within the explicitly requested {}", post.cap, trk.peak_len, limit, trk.max_req_cap));
            }
        }
    }
    if s.op.kind.is_clone() {
        if let (Some(src), Some(cl)) = (&s.post[t], &s.post[o]) {
            let inherit = tr.slots[t].clone();
            tr.slots[o] = SlotTrack { peak_len: cl.len.max(inherit.peak_len), max_req_cap: inherit.max_req_cap.max(fresh_capacity(src.cap)).max(cl.cap), window: None };
        }
    }

    Decides(dec)
}

/// Key ids in the order in which a Debug rendering shows them (keys render as `k<id>`).
pub fn debug_key_sequence(s: &str) -> Vec<u32> {
    let b = s.as_bytes();
    let mut v = Vec::new();
    let mut i = 0;
    while i < b.len() {
        if b[i] == b'k' && i + 1 < b.len() && b[i + 1].is_ascii_digit() && (i == 0 || !b[i - 1].is_ascii_alphanumeric()) {
            let mut j = i + 1;
            let mut n: u64 = 0;
            while j < b.len() && b[j].is_ascii_digit() {
                n = n * 10 + (b[j] - b'0') as u64;
                j += 1;
            }
            v.push(n as u32);
            i = j;
        } else {
            i += 1;
        }
    }
    v
}

pub fn diff_obs(a: &Obs, b: &Obs) -> String {
    let mut v = Vec::new();
    if a.len != b.len {
        v.push(format!("len {} -> {}", a.len, b.len));
    }
    if a.cur != b.cur {
        v.push(format!("current_size {} -> {}", a.cur, b.cur));
    }
    if a.max != b.max {
        v.push(format!("max_size {} -> {}", a.max, b.max));
    }
    if a.cap != b.cap {
        v.push(format!("capacity {} -> {}", a.cap, b.cap));
    }
    let ia: Vec<(u32, u32, u32, usize)> = a.entries.iter().map(|e| (e.id, e.ktok, e.vtok, e.size)).collect();
    let ib: Vec<(u32, u32, u32, usize)> = b.entries.iter().map(|e| (e.id, e.ktok, e.vtok, e.size)).collect();
    if ia != ib {
        v.push(format!("entries (id, key#, value#, size; LRU first) {:?} -> {:?}", ia, ib));
    } else if a.entries != b.entries {
        v.push("entries moved in memory or recorded sizes changed".into());
    }
    if a.hook != b.hook {
        match (&a.hook, &b.hook) {
            (Some(x), Some(y)) => {
                if x.table_ptr != y.table_ptr || x.buckets != y.buckets {
                    v.push(format!("table reallocated (buckets {} -> {})", x.buckets, y.buckets));
                } else if x.nodes_mru_to_lru != y.nodes_mru_to_lru || x.seal_next != y.seal_next || x.seal_prev != y.seal_prev {
                    v.push("internal links / recorded sizes changed".into());
                } else {
                    v.push("internal structure fingerprint changed".into());
                }
            }
            _ => v.push("structure walk failed".into()),
        }
    }
    if a.debug != b.debug {
        v.push(format!("Debug {:?} -> {:?}", a.debug, b.debug));
    }
    if v.is_empty() {
        "no difference".into()
    } else {
        v.join("; ")
    }
}
