//! C09: heap_size against the simulated allocator's ledger (built later in this file).

pub fn check_main(_tier: &str, _seed: u64) -> i32 {
    eprintln!("harness error: C09 check not built yet");
    2
}
