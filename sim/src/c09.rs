//! C09 — heap_size against the simulated allocator's ledger.
//!
//! The simulated component is the allocator (`SimAlloc`): its per-thread ledger of live requested
//! bytes is the ground truth for "bytes the value currently holds".  Values of a menu of concrete
//! types are built by seeded *build histories* (with_capacity / push / extend / reserve / shrink /
//! truncate / clear at every nesting level), and after every history step
//! `live bytes now - live bytes before the value existed == heap_size()` must hold (for HashMap /
//! HashSet: the documented lower and upper bounds).  There is no fault or schedule dimension.

use crate::alloc;
use crate::coord::{is_known_pub, load_known, replay_dir, root_dir};
use crate::prng::{derive, Digest, Rng};
use lru_mem::HeapSize;
use serde_json::json;
use std::collections::{BTreeMap, BinaryHeap, HashMap, HashSet};
use std::ffi::{CString, OsString};
use std::num::Wrapping;
use std::path::PathBuf;
use std::sync::{Mutex, RwLock};

#[derive(Clone, Debug)]
pub struct Mismatch {
    pub case: usize,
    pub name: &'static str,
    pub step: usize,
    pub heap_size: usize,
    pub allocator: isize,
    pub detail: String,
}

pub struct CaseOut {
    pub checks: u64,
    pub nontrivial: Vec<u64>,
    pub mismatch: Option<Mismatch>,
    pub sample: Option<String>,
}

struct Probe<'a> {
    case: usize,
    name: &'static str,
    base: isize,
    step: usize,
    out: &'a mut CaseOut,
    max_steps: usize,
}

impl<'a> Probe<'a> {
    /// exact conservation: allocator bytes attributed to the value == heap_size()
    fn exact<T: HeapSize + ?Sized>(&mut self, v: &T, shape: (usize, usize)) {
        let held = alloc::live_bytes() - self.base;
        let hs = v.heap_size();
        // the harness's own bookkeeping must not appear in the ledger
        alloc::set_tracking(false);
        self.out.checks += 1;
        if held > 0 {
            let mut d = Digest::new();
            d.u64(self.case as u64);
            d.usize(hs);
            d.usize(shape.0);
            d.usize(shape.1);
            self.out.nontrivial.push(d.finish());
        }
        if hs as isize != held && self.out.mismatch.is_none() {
            self.out.mismatch = Some(Mismatch { case: self.case, name: self.name, step: self.step, heap_size: hs, allocator: held, detail: format!("len/cap shape {:?}", shape) });
        }
        if self.out.sample.is_none() && held > 0 && self.step >= 2 {
            self.out.sample = Some(format!("{} after {} history steps: heap_size {} == allocator bytes {} (top-level len {}, capacity {})", self.name, self.step, hs, held, shape.0, shape.1));
        }
        self.step += 1;
        alloc::set_tracking(true);
    }

    /// bounds for hash containers: lower <= heap_size <= allocator bytes
    fn bounded<T: HeapSize + ?Sized>(&mut self, v: &T, lower: usize, shape: (usize, usize)) {
        let held = alloc::live_bytes() - self.base;
        let hs = v.heap_size();
        // the harness's own bookkeeping must not appear in the ledger
        alloc::set_tracking(false);
        self.out.checks += 1;
        if held > 0 {
            let mut d = Digest::new();
            d.u64(self.case as u64);
            d.usize(hs);
            d.usize(shape.0);
            d.usize(shape.1);
            self.out.nontrivial.push(d.finish());
        }
        if (hs as isize > held || hs < lower) && self.out.mismatch.is_none() {
            self.out.mismatch = Some(Mismatch { case: self.case, name: self.name, step: self.step, heap_size: hs, allocator: held, detail: format!("required: {} <= heap_size <= allocator bytes; shape {:?}", lower, shape) });
        }
        self.step += 1;
        alloc::set_tracking(true);
    }
}

// ------------------------------------------------------------------------------------------
// element generators and history steps

fn gen_string(rng: &mut Rng) -> String {
    let mut s = match rng.below(4) {
        0 => String::new(),
        1 => String::with_capacity(rng.below(64) as usize),
        2 => if rng.bool() { "x".repeat(rng.below(20) as usize) } else { "\u{fc}\u{4e16}".repeat(rng.below(8) as usize) },
        _ => {
            let mut s = String::with_capacity(rng.below(40) as usize);
            s.push_str(&"ab".repeat(rng.below(8) as usize));
            s
        }
    };
    for _ in 0..rng.below(4) {
        step_string(&mut s, rng);
    }
    s
}

fn step_string(s: &mut String, rng: &mut Rng) {
    match rng.below(11) {
        0 => s.push_str(&"q".repeat(rng.below(24) as usize)),
        1 => s.push('z'),
        // multi-byte characters: byte length != number of chars
        9 => s.push_str(&"\u{e9}\u{2211}".repeat(rng.below(6) as usize)),
        10 => s.push('\u{1f980}'),
        2 => s.reserve(rng.below(50) as usize),
        3 => s.reserve_exact(rng.below(50) as usize),
        4 => s.shrink_to_fit(),
        5 => s.shrink_to(rng.below(30) as usize),
        6 => {
            let mut n = (rng.below(10) as usize).min(s.len());
            while !s.is_char_boundary(n) {
                n -= 1;
            }
            s.truncate(n);
        }
        7 => s.clear(),
        _ => {
            s.pop();
        }
    }
}

fn gen_vec<T>(rng: &mut Rng, elem: &dyn Fn(&mut Rng) -> T) -> Vec<T> {
    // once in a while a long collection (implementations may process slices in chunks)
    if rng.chance(1, 400) {
        let n = *rng.pick(&[4095usize, 4096, 4097, 5000, 8193]);
        return (0..n).map(|_| elem(rng)).collect();
    }
    let mut v = match rng.below(3) {
        0 => Vec::new(),
        1 => Vec::with_capacity(rng.below(20) as usize),
        _ => (0..rng.below(6)).map(|_| elem(rng)).collect(),
    };
    for _ in 0..rng.below(4) {
        step_vec(&mut v, rng, elem);
    }
    v
}

fn step_vec<T>(v: &mut Vec<T>, rng: &mut Rng, elem: &dyn Fn(&mut Rng) -> T) {
    match rng.below(11) {
        0 | 1 => v.push(elem(rng)),
        2 => {
            let n = rng.below(5);
            v.extend((0..n).map(|_| elem(rng)));
        }
        3 => v.reserve(rng.below(30) as usize),
        4 => v.reserve_exact(rng.below(30) as usize),
        5 => v.shrink_to_fit(),
        6 => v.shrink_to(rng.below(12) as usize),
        7 => v.truncate(rng.below(6) as usize),
        8 => v.clear(),
        9 => {
            v.pop();
        }
        _ => {
            if !v.is_empty() {
                let i = rng.usize_below(v.len());
                v.insert(i, elem(rng));
            }
        }
    }
}

fn gen_heap<T: Ord>(rng: &mut Rng, elem: &dyn Fn(&mut Rng) -> T) -> BinaryHeap<T> {
    let mut h = if rng.bool() { BinaryHeap::new() } else { BinaryHeap::with_capacity(rng.below(20) as usize) };
    for _ in 0..rng.below(5) {
        step_heap(&mut h, rng, elem);
    }
    h
}

fn step_heap<T: Ord>(h: &mut BinaryHeap<T>, rng: &mut Rng, elem: &dyn Fn(&mut Rng) -> T) {
    match rng.below(7) {
        0..=2 => h.push(elem(rng)),
        3 => h.reserve(rng.below(20) as usize),
        4 => h.shrink_to_fit(),
        5 => {
            h.pop();
        }
        _ => h.clear(),
    }
}

fn gen_osstring(rng: &mut Rng) -> OsString {
    let mut s = if rng.bool() { OsString::new() } else { OsString::with_capacity(rng.below(64) as usize) };
    for _ in 0..rng.below(5) {
        step_osstring(&mut s, rng);
    }
    s
}

fn step_osstring(s: &mut OsString, rng: &mut Rng) {
    match rng.below(6) {
        0 => s.push("w".repeat(rng.below(20) as usize)),
        1 => s.push("\u{e4}\u{20ac}".repeat(rng.below(6) as usize)),
        2 => s.reserve(rng.below(40) as usize),
        3 => s.reserve_exact(rng.below(40) as usize),
        4 => s.shrink_to_fit(),
        _ => s.clear(),
    }
}

fn gen_pathbuf(rng: &mut Rng) -> PathBuf {
    let mut p = match rng.below(3) {
        0 => PathBuf::new(),
        1 => PathBuf::with_capacity(rng.below(100) as usize),
        _ => PathBuf::from("/usr/local"),
    };
    for _ in 0..rng.below(5) {
        step_pathbuf(&mut p, rng);
    }
    p
}

fn step_pathbuf(p: &mut PathBuf, rng: &mut Rng) {
    match rng.below(8) {
        0 | 1 => p.push("d".repeat(1 + rng.below(12) as usize)),
        2 => {
            p.pop();
        }
        3 => p.reserve(rng.below(60) as usize),
        4 => p.reserve_exact(rng.below(60) as usize),
        5 => p.shrink_to_fit(),
        6 => {
            p.set_extension("txt");
        }
        _ => p.clear(),
    }
}

fn gen_cstring(rng: &mut Rng) -> CString {
    CString::new("c".repeat(rng.below(30) as usize)).unwrap()
}

fn gen_bytes(rng: &mut Rng) -> Vec<u8> {
    gen_vec(rng, &|r| r.next_u64() as u8)
}

type Pair = (String, Option<Vec<u8>>);

fn gen_pair(rng: &mut Rng) -> Pair {
    (gen_string(rng), if rng.bool() { Some(gen_bytes(rng)) } else { None })
}

// ------------------------------------------------------------------------------------------
// the menu

const N_BASE: usize = 48;

pub fn n_cases() -> usize {
    N_BASE + EXTRA.len()
}

pub fn case_name(i: usize) -> &'static str {
    if i < N_BASE {
        CASE_NAMES[i]
    } else {
        EXTRA[i - N_BASE].0
    }
}

type CaseFn = fn(&mut Probe, &mut Rng, usize);

fn solo<T: HeapSize>(p: &mut Probe, rng: &mut Rng, gen: fn(&mut Rng) -> T) {
    let v = gen(rng);
    p.exact(&v, (0, 0));
}

fn invec<T: lru_mem::MemSize>(p: &mut Probe, rng: &mut Rng, steps: usize, gen: fn(&mut Rng) -> T) {
    hist_vec(p, rng, steps, &gen);
}

fn inheap_len<T: lru_mem::MemSize>(p: &mut Probe, rng: &mut Rng, gen: fn(&mut Rng) -> T) {
    // boxed slice of wrappers: the bulk (exact-size) helper path without spare capacity
    let v = gen_vec(rng, &gen).into_boxed_slice();
    p.exact(&v, (v.len(), v.len()));
}

macro_rules! wrapper_cases {
    ($( $name:literal => $gen:expr ),+ $(,)?) => {
        &[ $(
            ($name, (|p, r, _s| solo(p, r, $gen)) as CaseFn),
            (concat!("Vec<", $name, ">"), (|p, r, s| invec(p, r, s, $gen)) as CaseFn),
            (concat!("Box<[", $name, "]>"), (|p, r, _s| inheap_len(p, r, $gen)) as CaseFn),
        )+ ]
    };
}

/// every wrapper around owning types, measured standalone (per-value path) and as elements of
/// a Vec / boxed slice (bulk helper paths)
static EXTRA: &[(&str, CaseFn)] = wrapper_cases![
    "(String,)" => |r| (gen_string(r),),
    "(String, String)" => |r| (gen_string(r), gen_string(r)),
    "(String, Vec<u8>, String)" => |r| (gen_string(r), gen_bytes(r), gen_string(r)),
    "(String x4)" => |r| (gen_string(r), gen_string(r), gen_string(r), gen_string(r)),
    "(String x5)" => |r| (gen_string(r), gen_string(r), gen_string(r), gen_string(r), gen_string(r)),
    "(String x6)" => |r| (gen_string(r), gen_string(r), gen_string(r), gen_string(r), gen_string(r), gen_string(r)),
    "(String x7)" => |r| (gen_string(r), gen_string(r), gen_string(r), gen_string(r), gen_string(r), gen_string(r), gen_string(r)),
    "(String x8)" => |r| (gen_string(r), gen_string(r), gen_string(r), gen_string(r), gen_string(r), gen_string(r), gen_string(r), gen_string(r)),
    "(String x9)" => |r| (gen_string(r), gen_string(r), gen_string(r), gen_string(r), gen_string(r), gen_string(r), gen_string(r), gen_string(r), gen_string(r)),
    "(String x10)" => |r| (gen_string(r), gen_string(r), gen_string(r), gen_string(r), gen_string(r), gen_string(r), gen_string(r), gen_string(r), gen_string(r), gen_string(r)),
    "(u8, String, u16, Vec<u8>)" => |r| (1u8, gen_string(r), 2u16, gen_bytes(r)),
    "[String; 2]" => |r| [gen_string(r), gen_string(r)],
    "[String; 3]" => |r| [gen_string(r), gen_string(r), gen_string(r)],
    "[Vec<u8>; 0]" => |_r| { let a: [Vec<u8>; 0] = []; a },
    "[(String, Vec<u8>); 2]" => |r| [(gen_string(r), gen_bytes(r)), (gen_string(r), gen_bytes(r))],
    "Option<String>*" => |r| if r.chance(1, 4) { None } else { Some(gen_string(r)) },
    "Option<Vec<String>>" => |r| if r.chance(1, 4) { None } else { Some(gen_vec(r, &gen_string)) },
    "Result<String, Vec<u8>>*" => |r| if r.bool() { Ok::<String, Vec<u8>>(gen_string(r)) } else { Err(gen_bytes(r)) },
    "Result<u8, String>" => |r| if r.bool() { Ok::<u8, String>(3) } else { Err(gen_string(r)) },
    "Wrapping<String>" => |r| Wrapping(gen_string(r)),
    "Wrapping<Vec<u8>>" => |r| Wrapping(gen_bytes(r)),
    "Wrapping<Box<str>>" => |r| Wrapping(gen_string(r).into_boxed_str()),
    "Range<String>*" => |r| gen_string(r)..gen_string(r),
    "RangeFrom<String>" => |r| gen_string(r)..,
    "RangeTo<String>" => |r| ..gen_string(r),
    "RangeInclusive<Vec<u8>>" => |r| gen_bytes(r)..=gen_bytes(r),
    "RangeToInclusive<Vec<u8>>" => |r| ..=gen_bytes(r),
    "Box<String>" => |r| Box::new(gen_string(r)),
    "Box<(String, Vec<u8>)>" => |r| Box::new((gen_string(r), gen_bytes(r))),
    "Box<[u8]>" => |r| gen_bytes(r).into_boxed_slice(),
    "Box<str>*" => |r| gen_string(r).into_boxed_str(),
    "Mutex<Vec<u8>>" => |r| Mutex::new(gen_bytes(r)),
    "RwLock<String>" => |r| RwLock::new(gen_string(r)),
    "OsString*" => gen_osstring,
    "PathBuf*" => gen_pathbuf,
    "CString*" => gen_cstring,
    "BinaryHeap<String>*" => |r| gen_heap(r, &gen_string),
    "Vec<u64>" => |r| gen_vec(r, &|r| r.next_u64()),
    "Option<Option<String>>" => |r| match r.below(3) { 0 => None, 1 => Some(None), _ => Some(Some(gen_string(r))) },
    "Box<CStr>*" => |r| gen_cstring(r).into_boxed_c_str(),
    "Box<Path>*" => |r| gen_pathbuf(r).into_boxed_path(),
    "Vec<u128>" => |r| gen_vec(r, &|r| r.next_u64() as u128),
    "BinaryHeap<(u8, String)>" => |r| gen_heap(r, &|r| (r.next_u64() as u8, gen_string(r))),
    "Result<Option<String>, Box<str>>" => |r| if r.bool() { Ok::<Option<String>, Box<str>>(if r.bool() { Some(gen_string(r)) } else { None }) } else { Err(gen_string(r).into_boxed_str()) },
    "(Option<String>, Result<Vec<u8>, String>)" => |r| (if r.bool() { Some(gen_string(r)) } else { None }, if r.bool() { Ok::<Vec<u8>, String>(gen_bytes(r)) } else { Err(gen_string(r)) }),
    "Box<Box<String>>" => |r| Box::new(Box::new(gen_string(r))),
    "Mutex<Option<Vec<String>>>" => |r| Mutex::new(if r.bool() { Some(gen_vec(r, &gen_string)) } else { None }),
    "RangeInclusive<String>*" => |r| gen_string(r)..=gen_string(r),
    "[Option<String>; 2]" => |r| [if r.bool() { Some(gen_string(r)) } else { None }, Some(gen_string(r))],
    "Option<Wrapping<(String, Option<Box<[u16]>>)>>" => |r| if r.chance(1, 5) { None } else { Some(Wrapping((gen_string(r), if r.bool() { Some(gen_vec(r, &|r| r.next_u64() as u16).into_boxed_slice()) } else { None }))) },
];

const CASE_NAMES: [&str; N_BASE] = [
    "String",
    "Vec<u8>",
    "Vec<u32>",
    "Vec<()>",
    "Vec<String>",
    "Vec<Vec<u16>>",
    "Vec<Box<[u16]>>",
    "Vec<(String, Option<Vec<u8>>)>",
    "Vec<[String; 2]>",
    "Vec<Option<Box<str>>>",
    "Box<u64>",
    "Box<[u16]>",
    "Box<str>",
    "Box<CStr>",
    "Box<Path>",
    "Box<Vec<String>>",
    "Box<[String]>",
    "Box<(u8, String)>",
    "BinaryHeap<u32>",
    "BinaryHeap<String>",
    "CString",
    "OsString",
    "PathBuf",
    "(String, Vec<u8>)",
    "(u8, String, Vec<u32>, PathBuf)",
    "[String; 0]",
    "[String; 1]",
    "[Vec<u8>; 3]",
    "Option<String>",
    "Option<PathBuf>",
    "Result<String, Vec<u8>>",
    "Wrapping<u64>",
    "Range<String>",
    "RangeInclusive<String>",
    "RangeFrom<Vec<u8>>",
    "RangeTo<OsString>",
    "RangeToInclusive<String>",
    "Mutex<String>",
    "RwLock<Vec<String>>",
    "Mutex<PathBuf>",
    "HashMap<u32, String>",
    "HashSet<String>",
    "&String",
    "(&Vec<u8>, String)",
    "Vec<PathBuf>",
    "Option<Box<(OsString, CString)>>",
    "HashMap<String, Vec<u8>>",
    "HashSet<Vec<u8>>",
];

/// Executes one case: builds a value by a seeded history, checking conservation after each step.
pub fn run_case(case: usize, seed: u64) -> CaseOut {
    let mut out = CaseOut { checks: 0, nontrivial: Vec::new(), mismatch: None, sample: None };
    let mut rng = Rng::new(seed);
    let rng = &mut rng;
    let steps = 1 + rng.usize_below(8);
    alloc::set_tracking(true);
    let base = alloc::live_bytes();
    let mut p = Probe { case, name: case_name(case), base, step: 0, out: &mut out, max_steps: steps };
    let _ = p.max_steps;
    match case {
        0 => {
            let mut v = gen_string(rng);
            p.exact(&v, (v.len(), v.capacity()));
            for _ in 0..steps {
                step_string(&mut v, rng);
                p.exact(&v, (v.len(), v.capacity()));
            }
        }
        1 => hist_vec(&mut p, rng, steps, &|r| r.next_u64() as u8),
        2 => hist_vec(&mut p, rng, steps, &|r| r.next_u64() as u32),
        3 => hist_vec(&mut p, rng, steps, &|_| ()),
        4 => hist_vec(&mut p, rng, steps, &gen_string),
        5 => hist_vec(&mut p, rng, steps, &|r| gen_vec(r, &|r| r.next_u64() as u16)),
        6 => hist_vec(&mut p, rng, steps, &|r| gen_vec(r, &|r| r.next_u64() as u16).into_boxed_slice()),
        7 => hist_vec(&mut p, rng, steps, &gen_pair),
        8 => hist_vec(&mut p, rng, steps, &|r| [gen_string(r), gen_string(r)]),
        9 => hist_vec(&mut p, rng, steps, &|r| if r.bool() { Some(gen_string(r).into_boxed_str()) } else { None }),
        10 => {
            let v = Box::new(rng.next_u64());
            p.exact(&v, (1, 1));
        }
        11 => {
            let v = gen_vec(rng, &|r| r.next_u64() as u16).into_boxed_slice();
            p.exact(&v, (v.len(), v.len()));
        }
        12 => {
            let v = gen_string(rng).into_boxed_str();
            p.exact(&v, (v.len(), v.len()));
        }
        13 => {
            let v = gen_cstring(rng).into_boxed_c_str();
            p.exact(&v, (v.to_bytes().len(), 0));
        }
        14 => {
            let v = gen_pathbuf(rng).into_boxed_path();
            p.exact(&v, (v.as_os_str().len(), 0));
        }
        15 => {
            let mut v = Box::new(gen_vec(rng, &gen_string));
            p.exact(&v, (v.len(), v.capacity()));
            for _ in 0..steps {
                step_vec(&mut v, rng, &gen_string);
                p.exact(&v, (v.len(), v.capacity()));
            }
        }
        16 => {
            let v = gen_vec(rng, &gen_string).into_boxed_slice();
            p.exact(&v, (v.len(), v.len()));
        }
        17 => {
            let v = Box::new((rng.next_u64() as u8, gen_string(rng)));
            p.exact(&v, (v.1.len(), v.1.capacity()));
        }
        18 => hist_heap(&mut p, rng, steps, &|r| r.next_u64() as u32),
        19 => hist_heap(&mut p, rng, steps, &gen_string),
        20 => {
            let v = gen_cstring(rng);
            p.exact(&v, (v.as_bytes().len(), 0));
        }
        21 => {
            let mut v = gen_osstring(rng);
            p.exact(&v, (v.len(), v.capacity()));
            for _ in 0..steps {
                step_osstring(&mut v, rng);
                p.exact(&v, (v.len(), v.capacity()));
            }
        }
        22 => {
            let mut v = gen_pathbuf(rng);
            p.exact(&v, (v.as_os_str().len(), v.capacity()));
            for _ in 0..steps {
                step_pathbuf(&mut v, rng);
                p.exact(&v, (v.as_os_str().len(), v.capacity()));
            }
        }
        23 => {
            let mut v = (gen_string(rng), gen_bytes(rng));
            p.exact(&v, (v.0.len(), v.1.capacity()));
            for _ in 0..steps {
                if rng.bool() {
                    step_string(&mut v.0, rng);
                } else {
                    step_vec(&mut v.1, rng, &|r| r.next_u64() as u8);
                }
                p.exact(&v, (v.0.len(), v.1.capacity()));
            }
        }
        24 => {
            let mut v = (7u8, gen_string(rng), gen_vec(rng, &|r| r.next_u64() as u32), gen_pathbuf(rng));
            p.exact(&v, (v.1.len(), v.2.capacity()));
            for _ in 0..steps {
                match rng.below(3) {
                    0 => step_string(&mut v.1, rng),
                    1 => step_vec(&mut v.2, rng, &|r| r.next_u64() as u32),
                    _ => step_pathbuf(&mut v.3, rng),
                }
                p.exact(&v, (v.1.len(), v.2.capacity()));
            }
        }
        25 => {
            let v: [String; 0] = [];
            p.exact(&v, (0, 0));
        }
        26 => {
            let mut v = [gen_string(rng)];
            p.exact(&v, (v[0].len(), v[0].capacity()));
            for _ in 0..steps {
                step_string(&mut v[0], rng);
                p.exact(&v, (v[0].len(), v[0].capacity()));
            }
        }
        27 => {
            let mut v = [gen_bytes(rng), gen_bytes(rng), gen_bytes(rng)];
            p.exact(&v, (v[0].len(), v[2].capacity()));
            for _ in 0..steps {
                let i = rng.usize_below(3);
                step_vec(&mut v[i], rng, &|r| r.next_u64() as u8);
                p.exact(&v, (v[0].len(), v[2].capacity()));
            }
        }
        28 => {
            let v = if rng.chance(1, 4) { None } else { Some(gen_string(rng)) };
            p.exact(&v, (v.as_ref().map(|s| s.len()).unwrap_or(0), v.as_ref().map(|s| s.capacity()).unwrap_or(0)));
        }
        29 => {
            let v = if rng.chance(1, 4) { None } else { Some(gen_pathbuf(rng)) };
            p.exact(&v, (v.as_ref().map(|s| s.as_os_str().len()).unwrap_or(0), v.as_ref().map(|s| s.capacity()).unwrap_or(0)));
        }
        30 => {
            let v: Result<String, Vec<u8>> = if rng.bool() { Ok(gen_string(rng)) } else { Err(gen_bytes(rng)) };
            p.exact(&v, (v.is_ok() as usize, 0));
        }
        31 => {
            let v = Wrapping(rng.next_u64());
            p.exact(&v, (0, 0));
        }
        32 => {
            let v = gen_string(rng)..gen_string(rng);
            p.exact(&v, (v.start.len(), v.end.capacity()));
        }
        33 => {
            let v = gen_string(rng)..=gen_string(rng);
            p.exact(&v, (v.start().len(), v.end().capacity()));
        }
        34 => {
            let v = gen_bytes(rng)..;
            p.exact(&v, (v.start.len(), v.start.capacity()));
        }
        35 => {
            let v = ..gen_osstring(rng);
            p.exact(&v, (v.end.len(), v.end.capacity()));
        }
        36 => {
            let v = ..=gen_string(rng);
            p.exact(&v, (v.end.len(), v.end.capacity()));
        }
        37 => {
            let v = Mutex::new(gen_string(rng));
            let shape = {
                let g = v.lock().unwrap();
                (g.len(), g.capacity())
            };
            p.exact(&v, shape);
            for _ in 0..steps {
                step_string(&mut v.lock().unwrap(), rng);
                let shape = {
                    let g = v.lock().unwrap();
                    (g.len(), g.capacity())
                };
                p.exact(&v, shape);
            }
        }
        38 => {
            let v = RwLock::new(gen_vec(rng, &gen_string));
            for _ in 0..steps {
                step_vec(&mut v.write().unwrap(), rng, &gen_string);
                let shape = {
                    let g = v.read().unwrap();
                    (g.len(), g.capacity())
                };
                p.exact(&v, shape);
            }
        }
        39 => {
            let v = Mutex::new(gen_pathbuf(rng));
            for _ in 0..steps {
                step_pathbuf(&mut v.lock().unwrap(), rng);
                let shape = {
                    let g = v.lock().unwrap();
                    (g.as_os_str().len(), g.capacity())
                };
                p.exact(&v, shape);
            }
        }
        40 => {
            let mut v: HashMap<u32, String> = if rng.bool() { HashMap::new() } else { HashMap::with_capacity(rng.below(40) as usize) };
            for _ in 0..steps + 2 {
                match rng.below(6) {
                    0..=2 => {
                        v.insert(rng.below(50) as u32, gen_string(rng));
                    }
                    3 => {
                        v.remove(&(rng.below(50) as u32));
                    }
                    4 => v.reserve(rng.below(30) as usize),
                    _ => v.shrink_to_fit(),
                }
                let lower = v.capacity() * std::mem::size_of::<(u32, String)>() + v.values().map(|s| s.capacity()).sum::<usize>();
                p.bounded(&v, lower, (v.len(), v.capacity()));
            }
        }
        41 => {
            let mut v: HashSet<String> = if rng.bool() { HashSet::new() } else { HashSet::with_capacity(rng.below(40) as usize) };
            for _ in 0..steps + 2 {
                match rng.below(6) {
                    0..=2 => {
                        v.insert(gen_string(rng));
                    }
                    3 => {
                        let k = v.iter().next().cloned();
                        if let Some(k) = k {
                            v.remove(&k);
                        }
                    }
                    4 => v.reserve(rng.below(30) as usize),
                    _ => v.shrink_to_fit(),
                }
                let lower = v.capacity() * std::mem::size_of::<String>() + v.iter().map(|s| s.capacity()).sum::<usize>();
                p.bounded(&v, lower, (v.len(), v.capacity()));
            }
        }
        42 => {
            // the owner lives outside the bracket: a reference contributes 0 and holds 0
            let owner = gen_string(rng);
            p.base = alloc::live_bytes();
            let v = &owner;
            p.exact(&v, (0, 0));
            let _ = v;
        }
        43 => {
            let owner = gen_bytes(rng);
            p.base = alloc::live_bytes();
            let v = (&owner, gen_string(rng));
            p.exact(&v, (v.1.len(), v.1.capacity()));
        }
        44 => hist_vec(&mut p, rng, steps, &gen_pathbuf),
        45 => {
            let v = if rng.chance(1, 5) { None } else { Some(Box::new((gen_osstring(rng), gen_cstring(rng)))) };
            p.exact(&v, (v.is_some() as usize, 0));
        }
        46 => {
            let mut v: HashMap<String, Vec<u8>> = if rng.bool() { HashMap::new() } else { HashMap::with_capacity(rng.below(40) as usize) };
            for _ in 0..steps + 2 {
                match rng.below(6) {
                    0..=2 => {
                        v.insert(gen_string(rng), gen_bytes(rng));
                    }
                    3 => {
                        let k = v.keys().next().cloned();
                        if let Some(k) = k {
                            v.remove(&k);
                        }
                    }
                    4 => v.reserve(rng.below(30) as usize),
                    _ => v.shrink_to_fit(),
                }
                let lower = v.capacity() * std::mem::size_of::<(String, Vec<u8>)>() + v.iter().map(|(k, x)| k.capacity() + x.capacity()).sum::<usize>();
                p.bounded(&v, lower, (v.len(), v.capacity()));
            }
        }
        47 => {
            let mut v: HashSet<Vec<u8>> = if rng.bool() { HashSet::new() } else { HashSet::with_capacity(rng.below(40) as usize) };
            for _ in 0..steps + 2 {
                match rng.below(5) {
                    0..=2 => {
                        v.insert(gen_bytes(rng));
                    }
                    3 => v.reserve(rng.below(30) as usize),
                    _ => v.shrink_to_fit(),
                }
                let lower = v.capacity() * std::mem::size_of::<Vec<u8>>() + v.iter().map(|x| x.capacity()).sum::<usize>();
                p.bounded(&v, lower, (v.len(), v.capacity()));
            }
        }
        c => {
            let f = EXTRA[c - N_BASE].1;
            f(&mut p, rng, steps);
        }
    }
    alloc::set_tracking(false);
    out
}

fn hist_vec<T: lru_mem::MemSize>(p: &mut Probe, rng: &mut Rng, steps: usize, elem: &dyn Fn(&mut Rng) -> T) {
    let mut v = gen_vec(rng, elem);
    p.exact(&v, (v.len(), v.capacity()));
    for _ in 0..steps {
        step_vec(&mut v, rng, elem);
        p.exact(&v, (v.len(), v.capacity()));
    }
}

fn hist_heap<T: lru_mem::MemSize + Ord>(p: &mut Probe, rng: &mut Rng, steps: usize, elem: &dyn Fn(&mut Rng) -> T) {
    let mut v = gen_heap(rng, elem);
    p.exact(&v, (v.len(), v.capacity()));
    for _ in 0..steps {
        step_heap(&mut v, rng, elem);
        p.exact(&v, (v.len(), v.capacity()));
    }
}

// ------------------------------------------------------------------------------------------

fn class_of(name: &str) -> String {
    let mut s = String::from("heap-size-mismatch-");
    for c in name.chars() {
        if c.is_ascii_alphanumeric() {
            s.push(c);
        } else if !s.ends_with('_') {
            s.push('_');
        }
    }
    s.trim_end_matches('_').to_string()
}

pub fn replay(v: &serde_json::Value, path: &str) -> i32 {
    let case = v["case"].as_u64().unwrap_or(0) as usize;
    let seed = v["case_seed"].as_u64().unwrap_or(0);
    let class = v["violation"].as_str().unwrap_or("").to_string();
    println!("replaying {} (property C09, type {}, case seed {})", path, if case < n_cases() { case_name(case) } else { "?" }, seed);
    if case >= n_cases() {
        eprintln!("harness error: bad case index");
        return 2;
    }
    let out = run_case(case, seed);
    match out.mismatch {
        Some(m) if class.is_empty() || class_of(m.name) == class => {
            println!("  {} after {} history steps: heap_size() = {}, allocator holds {} bytes ({})", m.name, m.step, m.heap_size, m.allocator, m.detail);
            let known = load_known();
            if let Some(what) = is_known_pub(&known, "C09", &class) {
                println!("KNOWN-FINDING: property=C09 {}", what);
                return 0;
            }
            println!("VIOLATION property=C09 replay={}", path);
            1
        }
        _ => {
            println!("NOT REPRODUCED: heap_size matched the allocator ledger at every step");
            0
        }
    }
}

pub fn check_main(tier: &str, verif_seed: u64) -> i32 {
    let t0 = std::time::Instant::now();
    let thorough = tier == "thorough";
    let per_case: u64 = std::env::var("LRUSIM_UNITS").ok().and_then(|s| s.parse().ok()).unwrap_or(if thorough { 400_000 } else { 20_000 });
    let nthreads = std::thread::available_parallelism().map(|n| n.get()).unwrap_or(4).min(16);
    let mut handles = Vec::new();
    for t in 0..nthreads {
        handles.push(std::thread::spawn(move || {
            let mut checks = 0u64;
            let mut values = 0u64;
            let mut digests: Vec<u64> = Vec::new();
            let mut mism: BTreeMap<usize, (Mismatch, u64)> = BTreeMap::new();
            let mut samples: Vec<String> = Vec::new();
            let mut per_type: BTreeMap<&'static str, u64> = BTreeMap::new();
            for case in 0..n_cases() {
                let mut i = t as u64;
                while i < per_case {
                    let seed = derive(verif_seed, 9_000 + case as u64, i);
                    let out = run_case(case, seed);
                    checks += out.checks;
                    values += 1;
                    *per_type.entry(case_name(case)).or_insert(0) += out.checks;
                    digests.extend(out.nontrivial);
                    if let Some(m) = out.mismatch {
                        mism.entry(case).or_insert((m, seed));
                    }
                    if let Some(s) = out.sample {
                        if samples.len() < 2 && i % 97 == 3 {
                            samples.push(s);
                        }
                    }
                    i += nthreads as u64;
                }
                if digests.len() > 2_000_000 {
                    digests.sort_unstable();
                    digests.dedup();
                }
            }
            digests.sort_unstable();
            digests.dedup();
            (checks, values, digests, mism, samples, per_type)
        }));
    }
    let mut checks = 0u64;
    let mut values = 0u64;
    let mut digests: Vec<u64> = Vec::new();
    let mut mism: BTreeMap<usize, (Mismatch, u64)> = BTreeMap::new();
    let mut samples: Vec<String> = Vec::new();
    let mut per_type: BTreeMap<&'static str, u64> = BTreeMap::new();
    for h in handles {
        match h.join() {
            Ok((c, v, d, m, s, pt)) => {
                checks += c;
                values += v;
                digests.extend(d);
                for (k, x) in m {
                    mism.entry(k).or_insert(x);
                }
                for x in s {
                    if samples.len() < 3 {
                        samples.push(x);
                    }
                }
                for (k, x) in pt {
                    *per_type.entry(k).or_insert(0) += x;
                }
            }
            Err(_) => {
                eprintln!("harness error: a C09 worker thread panicked");
                return 2;
            }
        }
    }
    digests.sort_unstable();
    digests.dedup();
    let known = load_known();
    let mut violations = 0;
    let mut known_hits: BTreeMap<String, u64> = BTreeMap::new();
    for (case, (m, seed)) in &mism {
        let class = class_of(m.name);
        if let Some(what) = is_known_pub(&known, "C09", &class) {
            println!("KNOWN-FINDING: property=C09 {}", what);
            *known_hits.entry(class).or_insert(0) += 1;
            continue;
        }
        let path = replay_dir().join(format!("C09-{}-{}.json", verif_seed, class));
        let v = json!({"property": "C09", "mode": "c09", "violation": class, "case": case, "case_seed": seed, "type": m.name,
            "message": format!("{} after {} history steps: heap_size() = {}, allocator holds {} bytes ({})", m.name, m.step, m.heap_size, m.allocator, m.detail)});
        let _ = std::fs::write(&path, serde_json::to_string_pretty(&v).unwrap());
        // verify in a fresh process
        let (end, outp) = crate::coord::run_child(&["replay", path.to_str().unwrap()], std::time::Duration::from_secs(30));
        if !(end == crate::coord::ChildEnd::Exited(1) && outp.contains("VIOLATION property=C09")) {
            eprintln!("harness error: C09 mismatch for {} did not replay in a fresh process ({:?})", m.name, end);
            return 2;
        }
        println!("violation [C09] {}: {} after {} history steps: heap_size() = {}, allocator holds {} bytes ({})", class, m.name, m.step, m.heap_size, m.allocator, m.detail);
        println!("VIOLATION property=C09 replay={}", path.display());
        violations += 1;
    }
    let wall = t0.elapsed().as_secs_f64();
    if samples.is_empty() {
        samples.push("no sample collected".into());
    }
    let evidence = json!({
        "property_id": "C09",
        "tier": tier,
        "seed": verif_seed,
        "level": "exploration",
        "coverage": {
            "evaluations": checks,
            "distinct_nontrivial": digests.len(),
            "rule": "each evaluation compares heap_size() of one value with the simulated allocator's live-byte ledger after one step of a seeded build history (with_capacity / push / extend / insert / reserve / reserve_exact / shrink_to_fit / shrink_to / truncate / clear / pop at the top level and inside elements) for one of the concrete types listed under checks_per_type (every wrapper around owning types is measured standalone, as Vec element and as boxed-slice element, so that the per-value and both bulk helper paths are exercised); non-trivial = the value holds at least one byte from the allocator; distinct = distinct digests of (type, heap_size, top-level length, top-level capacity)",
            "samples": samples,
            "values_built": values,
            "types": n_cases(),
            "checks_per_type": per_type,
            "runs_per_hour": if wall > 0.0 { (values as f64 / wall * 3600.0) as u64 } else { 0 },
            "fault_kinds": {},
            "components": { "real": ["lru_mem::HeapSize impls (mem_size.rs)", "std collections", "std System allocator underneath SimAlloc"], "stub": ["SimAlloc (counting allocator ledger, per thread)"] },
            "simulated_time": "not applicable",
            "note": "edge of the technique family: the simulated component is the allocator; there is no schedule or fault dimension for this property",
            "known_findings_hit": known_hits,
        },
        "assumptions": ["requested layout sizes are the ground truth for 'bytes held' (allocator-internal rounding is not counted)", "std's Mutex/RwLock hold no heap memory on this target (futex-based)"],
        "wall_s": wall,
        "violations": violations,
    });
    let evdir = root_dir().join("evidence");
    let _ = std::fs::create_dir_all(&evdir);
    if std::fs::write(evdir.join("C09.json"), serde_json::to_string_pretty(&evidence).unwrap()).is_err() {
        eprintln!("harness error: cannot write evidence");
        return 2;
    }
    println!("C09 {}: {} values of {} types, {} conservation checks, {} distinct non-trivial shapes, {:.1}s; violations {}", tier, values, n_cases(), checks, digests.len(), wall, violations);
    if violations > 0 {
        1
    } else {
        0
    }
}
