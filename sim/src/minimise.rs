//! Trace minimisation: ddmin over operations, then simplification of configuration and
//! arguments, keeping the same (property, violation class).

use crate::ops::*;
use crate::stubs::HashMode;

pub fn minimise(trace: &Trace, test: &mut dyn FnMut(&Trace) -> bool, budget: usize) -> Trace {
    let mut best = trace.clone();
    let mut evals = 0usize;
    let mut try_it = |cand: &Trace, evals: &mut usize| -> bool {
        if *evals >= budget {
            return false;
        }
        *evals += 1;
        test(cand)
    };

    // 1. ddmin over ops
    let mut n = 2usize;
    while best.ops.len() >= 2 && evals < budget {
        let len = best.ops.len();
        let chunk = (len + n - 1) / n;
        let mut reduced = false;
        let mut start = 0;
        while start < len {
            let end = (start + chunk).min(len);
            let mut cand = best.clone();
            cand.ops.drain(start..end);
            if try_it(&cand, &mut evals) {
                best = cand;
                n = (n - 1).max(2);
                reduced = true;
                break;
            }
            start = end;
        }
        if !reduced {
            if chunk == 1 {
                break;
            }
            n = (n * 2).min(len);
        }
    }
    // single-op removal sweep
    let mut i = 0;
    while i < best.ops.len() && evals < budget {
        let mut cand = best.clone();
        cand.ops.remove(i);
        if try_it(&cand, &mut evals) {
            best = cand;
        } else {
            i += 1;
        }
    }

    // 2. configuration simplification (one field at a time, relative to the current best)
    for field in 0..6 {
        let mut c = best.config.clone();
        match field {
            0 => c.mode = HashMode::Good,
            1 => c.salt = 0,
            2 => c.ctor = Ctor::WithHasher,
            3 => c.prefill = 0,
            4 => c.prefill /= 8,
            _ => c.marathon = 0,
        }
        if c == best.config {
            continue;
        }
        let mut cand = best.clone();
        cand.config = c;
        if try_it(&cand, &mut evals) {
            best = cand;
        }
    }

    // 2b. one cache instead of two: drop the clone ops and retarget everything to cache 0
    if best.ops.iter().any(|o| o.target == 1 || matches!(o.kind, OpKind::CloneTo)) {
        let mut cand = best.clone();
        cand.ops.retain(|o| !matches!(o.kind, OpKind::CloneTo));
        for o in cand.ops.iter_mut() {
            o.target = 0;
        }
        if try_it(&cand, &mut evals) {
            best = cand;
            // ops that only existed for the other cache may now be removable
            let mut i = 0;
            while i < best.ops.len() && evals < budget {
                let mut c2 = best.clone();
                c2.ops.remove(i);
                if try_it(&c2, &mut evals) {
                    best = c2;
                } else {
                    i += 1;
                }
            }
        }
    }

    // 3. argument simplification per op
    let mut idx = 0;
    while idx < best.ops.len() && evals < budget {
        let cands = simpler_ops(&best.ops[idx]);
        for o in cands {
            let mut cand = best.clone();
            cand.ops[idx] = o;
            if try_it(&cand, &mut evals) {
                best = cand;
            }
        }
        idx += 1;
    }
    best
}

fn simpler_ops(op: &Op) -> Vec<Op> {
    let mut v = Vec::new();
    let mut push = |kind: OpKind| v.push(Op { target: op.target, kind, fuse: op.fuse });
    match &op.kind {
        OpKind::Insert { k, kh, vh } => {
            if *kh != 0 {
                push(OpKind::Insert { k: *k, kh: 0, vh: *vh });
            }
            if *vh != 0 {
                push(OpKind::Insert { k: *k, kh: *kh, vh: 0 });
            }
        }
        OpKind::TryInsert { k, kh, vh } => {
            if *kh != 0 {
                push(OpKind::TryInsert { k: *k, kh: 0, vh: *vh });
            }
            if *vh != 0 {
                push(OpKind::TryInsert { k: *k, kh: *kh, vh: 0 });
            }
        }
        OpKind::Get { k, owned: true } => push(OpKind::Get { k: *k, owned: false }),
        OpKind::GetEntry { k, owned } => push(OpKind::Get { k: *k, owned: *owned }),
        OpKind::Peek { k, owned: true } => push(OpKind::Peek { k: *k, owned: false }),
        OpKind::Remove { k, owned: true } => push(OpKind::Remove { k: *k, owned: false }),
        OpKind::Mutate { k, owned: true, vh, panic } => push(OpKind::Mutate { k: *k, owned: false, vh: *vh, panic: *panic }),
        OpKind::IterScript { kind, script, end, skips } if !script.is_empty() => {
            let mut sc = script.clone();
            sc.pop();
            let mut sk = skips.clone();
            sk.truncate(sc.len());
            push(OpKind::IterScript { kind: *kind, script: sc, end: *end, skips: sk });
            if script.iter().any(|b| !*b) {
                push(OpKind::IterScript { kind: *kind, script: vec![true; script.len()], end: *end, skips: skips.clone() });
            }
            if !skips.is_empty() {
                push(OpKind::IterScript { kind: *kind, script: script.clone(), end: *end, skips: vec![] });
            }
            if !matches!(end, EndMode::Drop | EndMode::Forget) {
                push(OpKind::IterScript { kind: *kind, script: script.clone(), end: EndMode::Drop, skips: skips.clone() });
            }
        }
        OpKind::Retain { keep, panic_at } if !keep.is_empty() => {
            if keep.iter().any(|b| !*b) {
                // fewer removals
                let mut k2 = keep.clone();
                if let Some(p) = k2.iter().position(|b| !*b) {
                    k2[p] = true;
                }
                push(OpKind::Retain { keep: k2, panic_at: *panic_at });
            }
        }
        _ => {}
    }
    if op.target == 1 {
        v.push(Op { target: 0, kind: op.kind.clone(), fuse: op.fuse });
    }
    v
}
