//! Deterministic PRNG: SplitMix64 for seeding/derivation, xoshiro256** for streams.

#[inline]
pub fn splitmix64(x: u64) -> u64 {
    let mut z = x.wrapping_add(0x9E37_79B9_7F4A_7C15);
    z = (z ^ (z >> 30)).wrapping_mul(0xBF58_476D_1CE4_E5B9);
    z = (z ^ (z >> 27)).wrapping_mul(0x94D0_49BB_1331_11EB);
    z ^ (z >> 31)
}

/// Derives a run seed from (VERIF_SEED, property number, run index).
pub fn derive(base: u64, stream: u64, index: u64) -> u64 {
    let a = splitmix64(base ^ 0xA076_1D64_78BD_642F);
    let b = splitmix64(a ^ stream.wrapping_mul(0xE703_7ED1_A0B4_28DB));
    splitmix64(b ^ index.wrapping_mul(0x8EBC_6AF0_9C88_C6E3))
}

#[derive(Clone, Debug)]
pub struct Rng {
    s: [u64; 4],
}

impl Rng {
    pub fn new(seed: u64) -> Rng {
        let mut x = seed;
        let mut s = [0u64; 4];
        for v in s.iter_mut() {
            x = x.wrapping_add(0x9E37_79B9_7F4A_7C15);
            *v = splitmix64(x);
        }
        if s == [0, 0, 0, 0] {
            s[0] = 1;
        }
        Rng { s }
    }

    #[inline]
    pub fn next_u64(&mut self) -> u64 {
        let result = self.s[1].wrapping_mul(5).rotate_left(7).wrapping_mul(9);
        let t = self.s[1] << 17;
        self.s[2] ^= self.s[0];
        self.s[3] ^= self.s[1];
        self.s[1] ^= self.s[2];
        self.s[0] ^= self.s[3];
        self.s[2] ^= t;
        self.s[3] = self.s[3].rotate_left(45);
        result
    }

    /// Uniform in 0..n (n > 0).
    #[inline]
    pub fn below(&mut self, n: u64) -> u64 {
        debug_assert!(n > 0);
        // multiply-shift; bias negligible for our n
        ((self.next_u64() as u128 * n as u128) >> 64) as u64
    }

    #[inline]
    pub fn usize_below(&mut self, n: usize) -> usize {
        self.below(n as u64) as usize
    }

    /// Uniform in lo..=hi.
    #[inline]
    pub fn range(&mut self, lo: u64, hi: u64) -> u64 {
        debug_assert!(lo <= hi);
        if lo == 0 && hi == u64::MAX {
            return self.next_u64();
        }
        lo + self.below(hi - lo + 1)
    }

    #[inline]
    pub fn chance(&mut self, num: u64, den: u64) -> bool {
        self.below(den) < num
    }

    #[inline]
    pub fn bool(&mut self) -> bool {
        self.next_u64() & 1 == 1
    }

    pub fn pick<'a, T>(&mut self, xs: &'a [T]) -> &'a T {
        &xs[self.usize_below(xs.len())]
    }

    /// Index chosen with probability proportional to weights (sum > 0).
    pub fn weighted(&mut self, weights: &[u32]) -> usize {
        let total: u64 = weights.iter().map(|&w| w as u64).sum();
        debug_assert!(total > 0);
        let mut r = self.below(total);
        for (i, &w) in weights.iter().enumerate() {
            if r < w as u64 {
                return i;
            }
            r -= w as u64;
        }
        weights.len() - 1
    }
}

/// FNV-style 64-bit digest helper for address-free state digests.
#[derive(Clone, Copy)]
pub struct Digest(pub u64);

impl Digest {
    pub fn new() -> Digest {
        Digest(0xcbf2_9ce4_8422_2325)
    }
    #[inline]
    pub fn u64(&mut self, x: u64) {
        self.0 = splitmix64(self.0 ^ x);
    }
    #[inline]
    pub fn usize(&mut self, x: usize) {
        self.u64(x as u64)
    }
    pub fn bytes(&mut self, b: &[u8]) {
        for chunk in b.chunks(8) {
            let mut v = [0u8; 8];
            v[..chunk.len()].copy_from_slice(chunk);
            self.u64(u64::from_le_bytes(v) ^ ((chunk.len() as u64) << 56));
        }
    }
    pub fn finish(&self) -> u64 {
        self.0
    }
}
