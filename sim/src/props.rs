//! Property ids as bit sets, and violation records.

pub type Props = u32;

pub const fn p(n: u32) -> Props {
    1 << n
}

pub const C01: Props = p(1);
pub const C02: Props = p(2);
pub const C03: Props = p(3);
pub const C04: Props = p(4);
pub const C05: Props = p(5);
pub const C06: Props = p(6);
pub const C07: Props = p(7);
pub const C09: Props = p(9);
pub const C10: Props = p(10);
pub const C11: Props = p(11);
pub const C12: Props = p(12);
pub const C13: Props = p(13);
pub const C14: Props = p(14);
pub const C15: Props = p(15);
pub const C16: Props = p(16);
pub const C17: Props = p(17);
pub const C19: Props = p(19);
pub const C20: Props = p(20);

pub fn prop_bit(id: &str) -> Option<Props> {
    let n: u32 = id.strip_prefix('C')?.parse().ok()?;
    if n == 0 || n > 20 {
        return None;
    }
    Some(p(n))
}

pub fn prop_num(id: &str) -> u32 {
    id.strip_prefix('C').and_then(|s| s.parse().ok()).unwrap_or(0)
}

pub fn props_names(ps: Props) -> String {
    let mut v = Vec::new();
    for n in 1..=20 {
        if ps & p(n) != 0 {
            v.push(format!("C{:02}", n));
        }
    }
    v.join("|")
}

#[derive(Clone, Debug)]
pub struct Viol {
    pub props: Props,
    /// stable short class name: replay must reproduce the same (property, class)
    pub class: &'static str,
    pub msg: String,
    pub step: usize,
}
