//! Fault-enumeration drivers.
//!
//! * C16 — crash-point enumeration: for a sampled fault-free base history and every operation in
//!   it, a panic is injected at the n-th callback of every kind that operation makes
//!   (n = 0, 1, 2, ... until the fuse no longer fires), plus the mutate closure (before/after it
//!   mutated) and the retain predicate at every call index.
//! * C17 — destructor-skip enumeration: every iterator kind, every script of next/next_back
//!   calls up to len + 1 (exhaustive for small caches), handle forgotten instead of dropped.
//! * C13 — allocator-refusal / overflow enumeration: a failing try_reserve inserted at every
//!   position of a base history.

use crate::gen::*;
use crate::ops::*;
use crate::prng::Rng;
use crate::props::*;
use crate::run::*;
use crate::stubs::*;

pub struct Base {
    pub cfg: Config,
    pub ops: Vec<Op>,
    /// per op: callback counts per fuse kind, predicate calls, closure calls
    pub counts: Vec<([u32; 6], u32, u32)>,
    /// (len, capacity) of cache 0 before each op, and after the last
    pub lens_caps: Vec<(usize, usize)>,
    /// final length of each cache slot
    pub final_lens: [Option<usize>; 2],
    pub out: RunOut,
}

/// profile for small, callback-rich base histories
fn small_profile(prop: &str) -> Profile {
    let mut p = profile_for("", false);
    let w = &mut p.weights;
    w[CAT_RESERVE] = 4;
    w[CAT_TRY_RESERVE] = 3;
    w[CAT_SHRINK_TO] = 4;
    w[CAT_SHRINK_FIT] = 3;
    w[CAT_CLONE] = 5;
    w[CAT_MUTATE] = 12;
    w[CAT_RETAIN] = 6;
    w[CAT_SET_MAX] = 5;
    w[CAT_DEBUG] = 0;
    w[CAT_GETTERS] = 0;
    if prop == "C17" || prop == "C12" {
        w[CAT_ITER_BORROW] = 0;
        w[CAT_DRAIN] = 0;
        w[CAT_ITER_OWNING] = 0;
    }
    p.min_steps = 3;
    p.max_steps = 14;
    p
}

pub fn gen_base(env: &Env, prop: &str, run_seed: u64, teardown: bool) -> Base {
    let mut rng = Rng::new(run_seed);
    let prof = small_profile(prop);
    let (mut cfg, mut gs, _) = gen_config(&mut rng, &prof, env.overhead);
    // small universes and capacities so that reallocation, eviction and collisions are all near
    cfg.universe = 1 + rng.below(8) as u32;
    cfg.prefill = 0;
    cfg.marathon = 0;
    if let Ctor::WithCapacityAndHasher(n) = cfg.ctor {
        if n > 30 {
            cfg.ctor = Ctor::WithCapacityAndHasher(n % 16);
        }
    }
    let steps = prof.min_steps + rng.usize_below(prof.max_steps - prof.min_steps + 1);
    let mut sim = Sim::new(env, cfg.clone(), 0);
    sim.debug_fmt = false;
    let mut ops = Vec::new();
    let mut counts = Vec::new();
    let mut lens_caps = Vec::new();
    {
        let mut f = Vec::new();
        sim.last = sim.observe_all_pub(&mut f);
    }
    for _ in 0..steps {
        if sim.stop {
            break;
        }
        let op = gen_op(&mut rng, &mut gs, &cfg, &sim.last, env.overhead);
        lens_caps.push(sim.last[0].as_ref().map(|o| (o.len, o.cap)).unwrap_or((0, 0)));
        sim.step(&op);
        counts.push((sim.last_counts, sim.last_pred_calls, sim.last_closure_calls));
        ops.push(op);
    }
    if !sim.stop && teardown {
        for op in gen_teardown(&mut rng, &sim.last) {
            if sim.stop {
                break;
            }
            lens_caps.push(sim.last[0].as_ref().map(|o| (o.len, o.cap)).unwrap_or((0, 0)));
            sim.step(&op);
            counts.push((sim.last_counts, sim.last_pred_calls, sim.last_closure_calls));
            ops.push(op);
        }
    }
    lens_caps.push(sim.last[0].as_ref().map(|o| (o.len, o.cap)).unwrap_or((0, 0)));
    let final_lens = [sim.last[0].as_ref().map(|o| o.len), sim.last[1].as_ref().map(|o| o.len)];
    let out = sim.into_out();
    Base { cfg, ops, counts, lens_caps, final_lens, out }
}

/// One simulated fault: the trace with its fault, and where the fault sits.
pub struct FaultCase {
    pub ops: Vec<Op>,
    pub at: usize,
    pub kind: &'static str,
}

const MAX_N_PER_KIND: u32 = 48;

/// All crash points of a base history (C16).
pub fn crash_points(base: &Base, rng: &mut Rng) -> Vec<FaultCase> {
    let mut cases = Vec::new();
    for (t, op) in base.ops.iter().enumerate() {
        let (cnt, preds, closures) = base.counts[t];
        for k in ALL_FUSES {
            let c = cnt[k.idx()];
            let ns: Vec<u32> = if c <= MAX_N_PER_KIND {
                (0..c).collect()
            } else {
                // first 24, last 8, 16 sampled in between
                let mut v: Vec<u32> = (0..24).collect();
                v.extend((c - 8)..c);
                for _ in 0..16 {
                    v.push(24 + rng.below((c - 32) as u64) as u32);
                }
                v.sort_unstable();
                v.dedup();
                v
            };
            for n in ns {
                let mut ops = base.ops.clone();
                ops[t].fuse = Some((k, n));
                // "with further faults allowed": now and then a second crash later in the same history
                // (the callback counts of the fault-free base are only a guide there; a fuse that does
                // not fire is simply a fault-free op)
                if rng.chance(1, 8) && t + 1 < base.ops.len() {
                    let u = t + 1 + rng.usize_below(base.ops.len() - t - 1);
                    let cands: Vec<FuseKind> = ALL_FUSES.iter().copied().filter(|f| base.counts[u].0[f.idx()] > 0).collect();
                    if !cands.is_empty() && ops[u].fuse.is_none() {
                        let f = *rng.pick(&cands);
                        ops[u].fuse = Some((f, rng.below(base.counts[u].0[f.idx()].min(3) as u64) as u32));
                    }
                }
                cases.push(FaultCase { ops, at: t, kind: k.name() });
            }
        }
        if closures > 0 {
            if let OpKind::Mutate { k, owned, vh, .. } = &op.kind {
                for (pm, name) in [(ClosurePanic::Before, "panic_in_mutate_closure_before"), (ClosurePanic::After, "panic_in_mutate_closure_after")] {
                    let mut ops = base.ops.clone();
                    ops[t].kind = OpKind::Mutate { k: *k, owned: *owned, vh: *vh, panic: pm };
                    cases.push(FaultCase { ops, at: t, kind: name });
                }
            }
        }
        if preds > 0 {
            if let OpKind::Retain { keep, .. } = &op.kind {
                for i in 0..preds.min(MAX_N_PER_KIND) {
                    let mut ops = base.ops.clone();
                    ops[t].kind = OpKind::Retain { keep: keep.clone(), panic_at: Some(i) };
                    cases.push(FaultCase { ops, at: t, kind: "panic_in_retain_predicate" });
                }
            }
        }
    }
    cases
}

/// Suffix of "arbitrary further use" after a fault: lookups of every key in both forms,
/// traversal (done by every observation), inserts, removals, a clean drain, clear.
pub fn usage_suffix(cfg: &Config, rng: &mut Rng, target: u8) -> Vec<Op> {
    let mut ops = Vec::new();
    let mk = |kind: OpKind| Op { target, kind, fuse: None };
    for k in 0..cfg.universe.min(12) {
        match rng.below(4) {
            0 => ops.push(mk(OpKind::Get { k, owned: rng.bool() })),
            1 => ops.push(mk(OpKind::Peek { k, owned: rng.bool() })),
            2 => ops.push(mk(OpKind::Remove { k, owned: rng.bool() })),
            _ => ops.push(mk(OpKind::Insert { k, kh: 0, vh: rng.below(30) as usize })),
        }
    }
    match rng.below(5) {
        0 => ops.push(mk(OpKind::Clear)),
        1 => ops.push(mk(OpKind::IterScript { kind: IterKind::Drain, script: vec![true, false], end: EndMode::Drop, skips: vec![] })),
        2 => ops.push(mk(OpKind::Reserve { a: 20 })),
        3 => ops.push(mk(OpKind::ShrinkToFit)),
        _ => ops.push(mk(OpKind::RemoveLru)),
    }
    ops.push(mk(OpKind::Insert { k: 0, kh: 0, vh: 1 }));
    ops.push(mk(OpKind::Insert { k: cfg.universe, kh: 0, vh: 2 }));
    ops.push(mk(OpKind::GetLru));
    ops
}

/// All forget cases at the end of a base history (C17).
pub fn forget_cases(base: &Base, rng: &mut Rng) -> Vec<FaultCase> {
    let mut cases = Vec::new();
    for target in 0..2u8 {
        let len = match base.final_lens[target as usize] {
            Some(l) => l,
            None => continue,
        };
        for kind in ALL_ITER_KINDS {
            let max_len = len + 1;
            let mut scripts: Vec<Vec<bool>> = Vec::new();
            if len <= 4 {
                for l in 0..=max_len {
                    for bits in 0..(1u32 << l) {
                        scripts.push((0..l).map(|i| bits >> i & 1 == 1).collect());
                    }
                }
            } else {
                scripts.push(vec![]);
                scripts.push(vec![true]);
                scripts.push(vec![false]);
                scripts.push(vec![true; max_len]);
                scripts.push(vec![false; max_len]);
                for _ in 0..12 {
                    let l = rng.usize_below(max_len + 1);
                    scripts.push((0..l).map(|_| rng.bool()).collect());
                }
            }
            for script in scripts {
                let mut ops = base.ops.clone();
                let at = ops.len();
                ops.push(Op { target, kind: OpKind::IterScript { kind, script, end: EndMode::Forget, skips: vec![] }, fuse: None });
                let mut srng = Rng::new(rng.next_u64());
                ops.extend(usage_suffix(&base.cfg, &mut srng, target));
                cases.push(FaultCase { ops, at, kind: "iterator_forgotten" });
            }
        }
    }
    cases
}

/// Failing-try_reserve cases at every position of a base history (C13).
pub fn refusal_cases(base: &Base) -> Vec<FaultCase> {
    let mut cases = Vec::new();
    for t in 0..=base.ops.len() {
        let (len, cap) = base.lens_caps.get(t).copied().unwrap_or((0, 0));
        let slack = cap.saturating_sub(len);
        let mut menu: Vec<(usize, bool, &'static str)> = vec![
            (slack + 1, true, "allocator_refusal"),
            (2 * cap + 1, true, "allocator_refusal"),
            (len + 100, true, "allocator_refusal"),
            (usize::MAX, false, "capacity_overflow_len_plus_additional"),
            (usize::MAX / 56, false, "capacity_overflow_table_layout"),
            (usize::MAX - len, false, "capacity_overflow_table_layout"),
        ];
        if len > 0 {
            menu.push((usize::MAX - len + 1, false, "capacity_overflow_len_plus_additional"));
        }
        for (a, refuse, name) in menu {
            let mut ops = base.ops.clone();
            ops.insert(t, Op { target: 0, kind: OpKind::TryReserve { a, refuse }, fuse: None });
            cases.push(FaultCase { ops, at: t, kind: name });
        }
    }
    cases
}

pub fn fault_prop_for(prop: &str) -> Props {
    prop_bit(prop).unwrap_or(0)
}

/// All next/next_back scripts up to len + 2 on every iterator kind, handle dropped (C12).
pub fn script_cases(base: &Base, rng: &mut Rng) -> Vec<FaultCase> {
    let mut cases = Vec::new();
    for target in 0..2u8 {
        let len = match base.final_lens[target as usize] {
            Some(l) => l,
            None => continue,
        };
        for kind in ALL_ITER_KINDS {
            let max_len = len + 2;
            let mut scripts: Vec<Vec<bool>> = Vec::new();
            if len <= 4 {
                for l in 0..=max_len {
                    for bits in 0..(1u32 << l) {
                        scripts.push((0..l).map(|i| bits >> i & 1 == 1).collect());
                    }
                }
            } else {
                for _ in 0..24 {
                    let l = rng.usize_below(max_len + 1);
                    scripts.push((0..l).map(|_| rng.bool()).collect());
                }
            }
            for script in scripts {
                let mut ops = base.ops.clone();
                let at = ops.len();
                ops.push(Op { target, kind: OpKind::IterScript { kind, script, end: EndMode::Drop, skips: vec![] }, fuse: None });
                if !kind.borrowing() {
                    let mut srng = Rng::new(rng.next_u64());
                    let mut suffix = usage_suffix(&base.cfg, &mut srng, target);
                    suffix.truncate(4);
                    ops.extend(suffix);
                }
                cases.push(FaultCase { ops, at, kind: "iterator_script" });
            }
        }
    }
    cases
}
