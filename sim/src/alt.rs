//! Alternative instantiations of the cache: key or value types WITHOUT drop glue, the unit value,
//! and the two constructors the main engine does not use (`LruCache::new`, `LruCache::with_capacity`
//! with `DefaultHashBuilder`).  A small seeded history per instantiation is checked against a
//! trivial sequential model (ids in recency order; all entries have the same size) and the identity
//! ledger (every instrumented instance dropped exactly once by the end).
//!
//! Why: code may legitimately specialise on the type parameters (`mem::needs_drop::<V>()`, the
//! constructor used), and such paths are invisible to an engine with one fixed instantiation.

use crate::prng::Rng;
use crate::stubs::*;
use lru_mem::{HeapSize, LruCache};
use std::hash::{BuildHasher, Hash};

pub struct AltViol {
    pub props: crate::props::Props,
    pub class: &'static str,
    pub msg: String,
}

trait AltKey: Hash + Eq + Clone + HeapSize {
    fn make(id: u32) -> Self;
    fn id(&self) -> u32;
}

impl AltKey for SimKey {
    fn make(id: u32) -> SimKey {
        SimKey::new(id, 0)
    }
    fn id(&self) -> u32 {
        self.id.0
    }
}

impl AltKey for u32 {
    fn make(id: u32) -> u32 {
        id
    }
    fn id(&self) -> u32 {
        *self
    }
}

trait AltVal: Clone + HeapSize {
    fn make(rng: &mut Rng) -> Self;
}

impl AltVal for SimVal {
    fn make(_rng: &mut Rng) -> SimVal {
        SimVal::new(0)
    }
}

impl AltVal for u64 {
    fn make(rng: &mut Rng) -> u64 {
        rng.next_u64()
    }
}

impl AltVal for () {
    fn make(_rng: &mut Rng) {}
}

fn end_iter<I>(it: I, end: u64) {
    match end {
        0 => drop(it),
        _ => {
            let _alive = it;
            std::panic::panic_any(Injected("panic_with_iterator_alive"));
        }
    }
}

fn absorb(f: impl FnOnce()) {
    if let Err(e) = std::panic::catch_unwind(std::panic::AssertUnwindSafe(f)) {
        if e.downcast_ref::<Injected>().is_none() {
            std::panic::resume_unwind(e);
        }
    }
}

fn history<K: AltKey, V: AltVal, S: BuildHasher + Clone>(name: &'static str, mut cache: LruCache<K, V, S>, k_limit: Option<usize>, rng: &mut Rng, out: &mut Vec<AltViol>) {
    use crate::props::*;
    let mut model: Vec<u32> = Vec::new();
    let steps = 6 + rng.usize_below(30);
    let uni = 1 + rng.below(14) as u32;
    let entry = lru_mem::entry_size(&K::make(0), &V::make(rng));
    if let Some(k) = k_limit {
        cache.set_max_size(k * entry);
    }
    let check = |cache: &LruCache<K, V, S>, model: &Vec<u32>, what: &str, out: &mut Vec<AltViol>| {
        let ids: Vec<u32> = cache.keys().take(cache.len() + 2).map(|k| k.id()).collect();
        if cache.len() != model.len() || ids != *model {
            if out.len() < 4 {
                out.push(AltViol { props: C04 | C05 | if what == "mutate" { C11 } else { 0 }, class: "alt-types-model", msg: format!("{}: after {} the cache holds {:?} (len {}), the sequential model {:?}", name, what, ids, cache.len(), model) });
            }
            return false;
        }
        if cache.current_size() != model.len() * entry && out.len() < 4 {
            out.push(AltViol { props: C02, class: "alt-types-size", msg: format!("{}: after {} current_size is {} for {} entries of size {}", name, what, cache.current_size(), model.len(), entry) });
            return false;
        }
        true
    };
    for _ in 0..steps {
        let id = rng.below(uni as u64) as u32;
        let what;
        match rng.below(16) {
            0..=5 => {
                what = "insert";
                let _ = cache.insert(K::make(id), V::make(rng));
                model.retain(|x| *x != id);
                model.push(id);
                if let Some(k) = k_limit {
                    while model.len() > k {
                        model.remove(0);
                    }
                    if k == 0 {
                        model.clear();
                    }
                }
            }
            6 => {
                what = "get";
                let probe = K::make(id);
                if cache.get(&probe).is_some() {
                    model.retain(|x| *x != id);
                    model.push(id);
                }
            }
            7 => {
                what = "remove";
                let probe = K::make(id);
                cache.remove(&probe);
                model.retain(|x| *x != id);
            }
            8 => {
                what = "remove_lru";
                cache.remove_lru();
                if !model.is_empty() {
                    model.remove(0);
                }
            }
            9 => {
                what = "retain";
                cache.retain(|k, _| k.id() % 2 == 0);
                model.retain(|x| x % 2 == 0);
            }
            10 => {
                what = "clear";
                cache.clear();
                model.clear();
            }
            11 => {
                what = "clone";
                let c2 = cache.clone();
                if c2.len() != cache.len() && out.len() < 4 {
                    out.push(AltViol { props: C14, class: "alt-types-clone", msg: format!("{}: clone has len {}, source {}", name, c2.len(), cache.len()) });
                }
                drop(c2);
            }
            12 => {
                what = "drain";
                let n = rng.usize_below(model.len() + 2);
                let back = rng.bool();
                let end = rng.below(3) / 2;
                let c = &mut cache;
                absorb(|| {
                    let mut it = c.drain();
                    for _ in 0..n {
                        let _ = if back { it.next_back() } else { it.next() };
                    }
                    end_iter(it, end);
                });
                model.clear();
            }
            13 => {
                what = "reserve/shrink";
                if rng.bool() {
                    cache.reserve(rng.below(20) as usize);
                } else {
                    cache.shrink_to(rng.below(8) as usize);
                }
            }
            14 => {
                what = "mutate";
                let probe = K::make(id);
                let _ = cache.mutate(&probe, |_v| ());
                if model.contains(&id) {
                    model.retain(|x| *x != id);
                    model.push(id);
                }
            }
            _ => {
                what = "peek";
                let probe = K::make(id);
                let _ = cache.peek(&probe);
                let _ = cache.contains(&probe);
            }
        }
        if !check(&cache, &model, what, out) {
            break;
        }
    }
    // teardown through one of the owning iterators, partially consumed, or plain drop
    let n = rng.usize_below(model.len() + 2);
    let back = rng.bool();
    let end = rng.below(3) / 2;
    match rng.below(5) {
        0 => drop(cache),
        1 => absorb(move || {
            let mut it = cache.into_iter();
            for _ in 0..n {
                let _ = if back { it.next_back() } else { it.next() };
            }
            end_iter(it, end);
        }),
        2 => absorb(move || {
            let mut it = cache.into_keys();
            for _ in 0..n {
                let _ = if back { it.next_back() } else { it.next() };
            }
            end_iter(it, end);
        }),
        3 => absorb(move || {
            let mut it = cache.into_values();
            for _ in 0..n {
                let _ = if back { it.next_back() } else { it.next() };
            }
            end_iter(it, end);
        }),
        _ => {
            let mut cache = cache;
            let c = &mut cache;
            absorb(|| {
                let mut it = c.drain();
                for _ in 0..n {
                    let _ = if back { it.next_back() } else { it.next() };
                }
                end_iter(it, end);
            });
            drop(cache);
        }
    }
}

/// One alternative-instantiation unit. Returns violations and the number of histories run.
pub fn run_unit(seed: u64) -> (Vec<AltViol>, u64) {
    use crate::props::*;
    let mut out = Vec::new();
    let mut rng = Rng::new(seed ^ 0xa17);
    let mut runs = 0;
    for variant in 0..5 {
        ctx_reset();
        set_budget(CALLBACK_BUDGET);
        let k_limit = match rng.below(4) {
            0 => None,
            1 => Some(1 + rng.usize_below(3)),
            _ => Some(2 + rng.usize_below(8)),
        };
        let hb = SimHashBuilder::new(*rng.pick(&[HashMode::Good, HashMode::Const, HashMode::Ident]), rng.next_u64());
        let cap = rng.below(20) as usize;
        let name: &'static str;
        let r = std::panic::catch_unwind(std::panic::AssertUnwindSafe(|| -> &'static str {
        let name: &'static str;
        match variant {
            0 => {
                name = "LruCache<SimKey, u64> (value without drop glue)";
                history::<SimKey, u64, _>(name, LruCache::with_capacity_and_hasher(usize::MAX, cap, hb), k_limit, &mut rng, &mut out);
            }
            1 => {
                name = "LruCache<u32, SimVal> (key without drop glue)";
                history::<u32, SimVal, _>(name, LruCache::with_hasher(usize::MAX, hb), k_limit, &mut rng, &mut out);
            }
            2 => {
                name = "LruCache<SimKey, ()> (zero-sized value)";
                history::<SimKey, (), _>(name, LruCache::with_hasher(usize::MAX, hb), k_limit, &mut rng, &mut out);
            }
            3 => {
                name = "LruCache::new (DefaultHashBuilder)";
                history::<SimKey, SimVal, _>(name, LruCache::new(usize::MAX), k_limit, &mut rng, &mut out);
            }
            4 => {
                name = "LruCache::with_capacity (DefaultHashBuilder)";
                // a cache created with_capacity(n) takes n fresh insertions without its capacity changing
                let n = rng.below(130) as usize;
                let mut c: LruCache<SimKey, SimVal> = LruCache::with_capacity(usize::MAX, n);
                let cap0 = c.capacity();
                for i in 0..n {
                    let _ = c.insert(SimKey::new(i as u32, 0), SimVal::new(0));
                    if c.capacity() != cap0 {
                        if out.len() < 4 {
                            out.push(AltViol { props: C13, class: "alt-with-capacity", msg: format!("LruCache::with_capacity(_, {}): capacity changed from {} to {} at fresh insertion {}", n, cap0, c.capacity(), i + 1) });
                        }
                        break;
                    }
                }
                drop(c);
                history::<SimKey, SimVal, _>(name, LruCache::with_capacity(usize::MAX, cap), k_limit, &mut rng, &mut out);
            }
            _ => unreachable!(),
        }
        name
        }));
        name = match r {
            Ok(n) => n,
            Err(e) => {
                let msg = e.downcast_ref::<String>().cloned().or_else(|| e.downcast_ref::<&str>().map(|s| s.to_string())).unwrap_or_else(|| "panic".into());
                if out.len() < 4 {
                    let props = if msg.contains("overflow") { C01 | C02 } else { C04 | C07 };
                    out.push(AltViol { props, class: "alt-types-panic", msg: format!("alternative instantiation {}: the cache's own code panicked: {}", variant, msg) });
                }
                "alternative instantiation (panicked)"
            }
        };
        set_budget(0);
        runs += 1;
        clear_events();
        for m in take_viol() {
            if out.len() < 4 {
                out.push(AltViol { props: C06 | C07 | C12, class: "alt-types-ledger", msg: format!("{}: {}", name, m) });
            }
        }
        let leaked = live_tokens();
        if !leaked.is_empty() && out.len() < 4 {
            out.push(AltViol { props: C06 | C12, class: "alt-types-leak", msg: format!("{}: {} instrumented instances were never dropped, e.g. #{}", name, leaked.len(), leaked[0]) });
        }
    }
    ctx_disable();
    (out, runs)
}
