//! C19 reader-thread scenario (runs under Miri); built below.

pub fn replay(_v: &serde_json::Value, _path: &str) -> i32 {
    eprintln!("harness error: thread scenario replays run through ./check --replay under Miri");
    2
}
