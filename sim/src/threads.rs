//! C19, schedule dimension: several real threads run seeded scripts of `&self` operations on one
//! shared `&LruCache` **under Miri**, whose scheduler is driven by `-Zmiri-seed` (one seed = one
//! repeatable interleaving) and whose data-race detector reports any non-atomic write that is
//! concurrent with another thread's access — including write-then-restore patterns that a
//! before/after comparison cannot see.
//!
//! `lrusim threads <seed> <nthreads> <ops>` is the program that runs under Miri;
//! `miri_phase` (native, called by the coordinator) fans out `cargo +nightly miri run` processes.

use crate::coord::{replay_dir, root_dir};
use crate::prng::{derive, Rng};
use crate::stubs::*;
use serde_json::json;
use std::process::Command;

fn build_cache(seed: u64, class: u64) -> Cache {
    let mut rng = Rng::new(seed);
    let mode = match rng.below(5) {
        0 => HashMode::Const,
        1 => HashMode::Ident,
        2 => HashMode::Mod(2),
        _ => HashMode::Good,
    };
    let hb = SimHashBuilder::new(mode, rng.next_u64());
    let limit = if rng.bool() { usize::MAX } else { 12 * (entry_overhead() + 8) };
    let mut c = if rng.bool() { Cache::with_hasher(limit, hb) } else { Cache::with_capacity_and_hasher(limit, rng.below(20) as usize, hb) };
    // size classes: the usual 10-40 operations, but also caches that end up empty (with capacity),
    // with a single entry, with two, and (rarely) with more than a thousand entries
    // class: 0 = history as drawn, 1 = emptied (capacity kept), 2 = one entry, 3 = two entries,
    // 5 = more than a thousand entries
    if class == 5 {
        let n = 1030 + rng.below(200) as u32;
        for k in 0..n {
            let _ = c.insert(SimKey::new(1000 + k, 0), SimVal::new(1));
        }
        return c;
    }
    let n = 10 + rng.below(30);
    for _ in 0..n {
        let k = rng.below(16) as u32;
        match rng.below(12) {
            0..=5 => {
                let _ = c.insert(SimKey::new(k, 0), SimVal::new(rng.below(9) as usize));
            }
            6 => {
                c.remove(&KeyId(k));
            }
            7 => {
                c.get(&KeyId(k));
            }
            8 => {
                let h = rng.below(9) as usize;
                let _ = c.mutate(&KeyId(k), |v| v.heap = h);
            }
            9 => c.reserve(rng.below(10) as usize),
            10 => c.shrink_to_fit(),
            _ => {
                c.touch(&KeyId(k));
            }
        }
    }
    match class {
        1 => {
            // empty, capacity kept (drain or clear)
            if rng.bool() {
                c.clear();
            } else {
                drop(c.drain());
            }
        }
        2 => {
            while c.len() > 1 {
                c.remove_lru();
            }
        }
        3 => {
            while c.len() > 2 {
                c.remove_mru();
            }
        }
        _ => {}
    }
    c
}

fn reader(c: &Cache, seed: u64, tid: u64, ops: usize, class: u64) -> u64 {
    let mut rng = Rng::new(derive(seed, 1900 + tid, 0));
    let mut acc = 0u64;
    let mut probe = SimKey::new(0, 0);
    if class == 5 {
        // a big cache: few operations, among them the expensive ones
        let cl = c.clone();
        acc += cl.len() as u64;
        drop(cl);
        acc += c.iter().rev().map(|(k, _)| k.id.0 as u64).sum::<u64>();
        acc += c.peek(&KeyId(1000 + tid as u32)).map(|v| v.heap as u64).unwrap_or(7);
        acc += c.peek_lru().map(|(k, _)| k.id.0 as u64).unwrap_or(1) + c.contains(&KeyId(3)) as u64;
        return acc;
    }
    for _ in 0..ops {
        let k = rng.below(18) as u32;
        probe.id = KeyId(k);
        match rng.below(19) {
            0 => acc += c.peek(&KeyId(k)).map(|v| v.heap as u64).unwrap_or(7),
            1 => acc += c.peek(&probe).map(|v| v.heap as u64).unwrap_or(7),
            2 => acc += c.peek_entry(&KeyId(k)).map(|(k, _)| k.id.0 as u64).unwrap_or(3),
            3 => acc += c.contains(&KeyId(k)) as u64,
            4 => acc += c.contains(&probe) as u64,
            5 => acc += c.peek_lru().map(|(k, _)| k.id.0 as u64).unwrap_or(1),
            6 => acc += c.peek_mru().map(|(k, _)| k.id.0 as u64).unwrap_or(1),
            7 => acc += (c.len() + c.current_size() % 97 + c.capacity() + c.is_empty() as usize + (c.max_size() % 5)) as u64 + c.hasher().salt % 3,
            8 => acc += c.iter().map(|(k, v)| k.id.0 as u64 + v.heap as u64).sum::<u64>(),
            9 => acc += c.iter().rev().map(|(k, _)| k.id.0 as u64).sum::<u64>(),
            10 => {
                let mut it = c.keys();
                let mut front = true;
                loop {
                    let x = if front { it.next() } else { it.next_back() };
                    match x {
                        Some(k) => acc += k.id.0 as u64,
                        None => break,
                    }
                    front = !front;
                }
            }
            11 => acc += c.values().map(|v| v.heap as u64).sum::<u64>(),
            12 => acc += format!("{:?}", c).len() as u64,
            13 => acc += format!("{:#?}", c).len() as u64,
            14 => acc += c.iter().count() as u64,
            15 => acc += c.keys().last().map(|k| k.id.0 as u64).unwrap_or(2),
            16 => acc += c.values().nth(2).map(|v| v.heap as u64).unwrap_or(2),
            17 => acc += c.iter().rev().nth(1).map(|(k, _)| k.id.0 as u64).unwrap_or(2) + c.iter().size_hint().0 as u64,
            _ => {
                let cl = c.clone();
                acc += cl.len() as u64;
                drop(cl);
            }
        }
    }
    drop(probe);
    acc
}

/// The program that runs under Miri.
pub fn threads_main(args: &[String]) -> i32 {
    let seed: u64 = args.first().and_then(|s| s.parse().ok()).unwrap_or(1);
    let nthreads: u64 = args.get(1).and_then(|s| s.parse().ok()).unwrap_or(3);
    let ops: usize = args.get(2).and_then(|s| s.parse().ok()).unwrap_or(12);
    let class: u64 = args.get(3).and_then(|s| s.parse().ok()).unwrap_or(0);
    ctx_disable();
    let cache = build_cache(seed, class);
    let before = cache.verif_structure();
    let c = &cache;
    let mut total = 0u64;
    std::thread::scope(|s| {
        let hs: Vec<_> = (0..nthreads).map(|t| s.spawn(move || reader(c, seed, t, ops, class))).collect();
        for h in hs {
            total = total.wrapping_add(h.join().unwrap_or(0));
        }
    });
    let after = cache.verif_structure();
    if before != after {
        println!("THREADS-STRUCTURE-CHANGED seed={}", seed);
        return 1;
    }
    println!("THREADS-OK seed={} len={} acc={}", seed, cache.len(), total);
    0
}

pub struct MiriOutcome {
    pub schedules: u64,
    pub programs: u64,
    pub violations: Vec<String>,
    pub error: Option<String>,
}

fn miri_cmd(seed: u64, nthreads: u64, ops: u64, class: u64, flags: &str) -> Command {
    let mut cmd = Command::new("cargo");
    cmd.current_dir(root_dir().join("sim"))
        .env("MIRIFLAGS", flags)
        .env("CARGO_NET_OFFLINE", "true")
        .env_remove("RUSTFLAGS")
        .args(["+nightly", "miri", "run", "--offline", "-q", "--", "threads", &seed.to_string(), &nthreads.to_string(), &ops.to_string(), &class.to_string()]);
    cmd
}

const BASE_FLAGS: &str = "-Zmiri-disable-stacked-borrows -Zmiri-ignore-leaks -Zmiri-preemption-rate=0.2";

/// Runs `programs` seeded reader-thread programs, each under `seeds_per` Miri scheduler seeds.
pub fn miri_phase(verif_seed: u64, programs: u64, seeds_per: u64, nthreads: u64, ops: u64, parallel: usize) -> MiriOutcome {
    let mut out = MiriOutcome { schedules: 0, programs: 0, violations: Vec::new(), error: None };
    let mut next = 0u64;
    let mut running: Vec<(u64, std::process::Child, std::path::PathBuf, u64, u64)> = Vec::new();
    let tmp = root_dir().join("sim").join("target").join("tmp");
    let _ = std::fs::create_dir_all(&tmp);
    // one warm-up invocation so that parallel ones do not race on the build
    {
        let mut cmd = miri_cmd(derive(verif_seed, 1900, 0), 1, 1, 0, BASE_FLAGS);
        match cmd.output() {
            Ok(o) if o.status.success() => {}
            Ok(o) => {
                out.error = Some(format!("miri warm-up failed: {}", String::from_utf8_lossy(&o.stderr).lines().rev().take(15).collect::<Vec<_>>().join(" | ")));
                return out;
            }
            Err(e) => {
                out.error = Some(format!("cannot run cargo miri: {}", e));
                return out;
            }
        }
    }
    loop {
        while running.len() < parallel && next < programs {
            let pseed = derive(verif_seed, 1900, next + 1);
            // the programs cycle through the size classes; the big one gets fewer scheduler seeds
            // (a cache of more than a thousand entries costs minutes under Miri: two such programs,
            // one scheduler seed each, and only when many programs are requested, i.e. in the thorough tier)
            let class = if programs >= 48 && (next == 5 || next == 29) { 5 } else { [0u64, 1, 2, 3, 0, 0][(next % 6) as usize] };
            let seeds_here = if class == 5 { 1 } else { seeds_per };
            let flags = format!("{} -Zmiri-many-seeds=0..{}", BASE_FLAGS, seeds_here);
            let errp = tmp.join(format!("miri-{}-{}.err", std::process::id(), next));
            let errf = match std::fs::File::create(&errp) {
                Ok(f) => f,
                Err(e) => {
                    out.error = Some(format!("cannot create {}: {}", errp.display(), e));
                    return out;
                }
            };
            let mut cmd = miri_cmd(pseed, nthreads, ops, class, &flags);
            cmd.stdout(std::process::Stdio::null()).stderr(errf);
            match cmd.spawn() {
                Ok(ch) => running.push((pseed, ch, errp, class, seeds_here)),
                Err(e) => {
                    out.error = Some(format!("cannot spawn cargo miri: {}", e));
                    return out;
                }
            }
            next += 1;
        }
        if running.is_empty() {
            break;
        }
        let mut i = 0;
        while i < running.len() {
            match running[i].1.try_wait() {
                Ok(Some(st)) => {
                    let (pseed, _, errp, class, seeds_here) = running.remove(i);
                    let err = std::fs::read_to_string(&errp).unwrap_or_default();
                    let _ = std::fs::remove_file(&errp);
                    out.programs += 1;
                    out.schedules += seeds_here;
                    if !st.success() {
                        if err.contains("Data race detected") || err.contains("Undefined Behavior") {
                            // find the failing miri seed by re-running seeds one at a time
                            let mut found = None;
                            for ms in 0..seeds_here {
                                let flags = format!("{} -Zmiri-seed={}", BASE_FLAGS, ms);
                                if let Ok(o) = miri_cmd(pseed, nthreads, ops, class, &flags).output() {
                                    let e2 = String::from_utf8_lossy(&o.stderr).to_string();
                                    if !o.status.success() && (e2.contains("Data race detected") || e2.contains("Undefined Behavior")) {
                                        found = Some((ms, e2));
                                        break;
                                    }
                                }
                            }
                            let (ms, text) = found.unwrap_or((0, err.clone()));
                            let what = text.lines().find(|l| l.contains("Data race detected") || l.contains("Undefined Behavior")).unwrap_or("undefined behaviour").trim().to_string();
                            let class = if what.contains("Data race") { "data-race" } else { "miri-ub" };
                            let path = replay_dir().join(format!("C19-{}-threads-{}.json", verif_seed, pseed));
                            let v = json!({"property": "C19", "mode": "threads", "violation": class, "program_seed": pseed, "miri_seed": ms, "nthreads": nthreads, "ops": ops, "class": class, "message": what});
                            let _ = std::fs::write(&path, serde_json::to_string_pretty(&v).unwrap());
                            out.violations.push(format!("{}|{}|{}", class, what, path.display()));
                        } else if err.contains("THREADS-STRUCTURE-CHANGED") {
                            out.violations.push(format!("structure-changed|the cache's internal structure differs after the reader threads finished|program seed {}", pseed));
                        } else {
                            out.error = Some(format!("miri run failed for program seed {}: {}", pseed, err.lines().rev().take(12).collect::<Vec<_>>().join(" | ")));
                            return out;
                        }
                    }
                }
                Ok(None) => i += 1,
                Err(e) => {
                    out.error = Some(format!("wait failed: {}", e));
                    return out;
                }
            }
        }
        std::thread::sleep(std::time::Duration::from_millis(20));
    }
    out
}

pub fn replay(v: &serde_json::Value, path: &str) -> i32 {
    let pseed = v["program_seed"].as_u64().unwrap_or(0);
    let ms = v["miri_seed"].as_u64().unwrap_or(0);
    let nthreads = v["nthreads"].as_u64().unwrap_or(3);
    let ops = v["ops"].as_u64().unwrap_or(12);
    let class = v["class"].as_u64().unwrap_or(0);
    println!("replaying {} (property C19, reader threads under Miri: program seed {}, miri seed {}, {} threads x {} ops)", path, pseed, ms, nthreads, ops);
    let flags = format!("{} -Zmiri-seed={}", BASE_FLAGS, ms);
    match miri_cmd(pseed, nthreads, ops, class, &flags).output() {
        Ok(o) => {
            let e = String::from_utf8_lossy(&o.stderr).to_string();
            if !o.status.success() && (e.contains("Data race detected") || e.contains("Undefined Behavior")) {
                for l in e.lines().filter(|l| l.contains("Data race") || l.contains("Undefined Behavior")).take(2) {
                    println!("  {}", l.trim());
                }
                println!("VIOLATION property=C19 replay={}", path);
                1
            } else if o.status.success() {
                println!("NOT REPRODUCED: Miri finished the schedule without reporting a data race");
                0
            } else {
                eprintln!("harness error: miri failed: {}", e.lines().rev().take(10).collect::<Vec<_>>().join(" | "));
                2
            }
        }
        Err(e) => {
            eprintln!("harness error: cannot run cargo miri: {}", e);
            2
        }
    }
}
