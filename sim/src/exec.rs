//! The simulated client: executes one concrete operation against the real cache and records
//! what came back (with instance tokens).  Owned values returned by the cache are parked in
//! `World::held_*` until the step has been checked; then the harness drops them.

use crate::alloc;
use crate::ops::*;
use crate::stubs::*;
use hashbrown::TryReserveError;
use lru_mem::{InsertError, MutateError, TryInsertError};

pub struct World {
    pub cfg: Config,
    pub caches: [Option<Cache>; 2],
    pub held_k: Vec<SimKey>,
    pub held_v: Vec<SimVal>,
    pub closure_counter: u64,
    /// alignment threshold for allocator refusal (table allocations)
    pub table_align: usize,
}

#[derive(Clone, Debug, PartialEq, Eq)]
pub struct KeyRet {
    pub id: u32,
    pub tok: u32,
}

#[derive(Clone, Debug, PartialEq, Eq)]
pub struct ValRet {
    pub tok: u32,
    pub heap: usize,
}

#[derive(Clone, Debug, PartialEq, Eq)]
pub enum TryVariant {
    Occupied,
    WouldEject,
    TooLarge,
}

#[derive(Clone, Debug, PartialEq, Eq)]
pub enum IterItem {
    None,
    /// result of the terminal `count()`
    Count(usize),
    Pair { ktok: u32, vtok: u32, kaddr: usize, vaddr: usize },
    Key { ktok: u32, kaddr: usize },
    Val { vtok: u32, vaddr: usize },
}

#[derive(Clone, Debug, PartialEq, Eq)]
pub enum Outcome {
    /// target slot empty: nothing executed
    Skipped,
    Unit,
    Bool(bool),
    InsertOk(Option<ValRet>),
    InsertErr { k: KeyRet, v: ValRet, entry_size: usize, max_size: usize },
    TryInsertOk,
    TryInsertErr {
        variant: TryVariant,
        k: KeyRet,
        v: ValRet,
        entry_size: Option<usize>,
        max_size: Option<usize>,
        free_memory: Option<usize>,
        /// entry()/key()/value() agreed with into_entry()
        accessors_ok: bool,
    },
    /// get / peek
    ValRef(Option<(u32, usize)>),
    /// get_entry / peek_entry / get_lru / peek_lru / peek_mru: (ktok, vtok, kaddr, vaddr)
    EntryRef(Option<(u32, u32, usize, usize)>),
    RemovedVal(Option<ValRet>),
    RemovedEntry(Option<(KeyRet, ValRet)>),
    /// (closure result token, value token the closure saw)
    MutateOk(Option<(u64, u32)>),
    MutateErr { k: KeyRet, v: ValRet, old_entry_size: usize, new_entry_size: usize, max_size: usize },
    /// Ok, or Err(0 = CapacityOverflow, 1 = AllocError)
    Reserve(Result<(), u8>),
    Iter(Vec<IterItem>),
    Getters { len: usize, is_empty: bool, cur: usize, max: usize, cap: usize, hasher_ok: bool },
    Debug(String),
    Cloned,
    /// the operation unwound; `injected` tells whether it was the simulator's fault
    Panicked { injected: Option<&'static str>, msg: String },
}

impl World {
    pub fn new(cfg: Config, table_align: usize) -> World {
        let c0 = Self::make_cache(&cfg);
        World { cfg, caches: [Some(c0), None], held_k: Vec::new(), held_v: Vec::new(), closure_counter: 0, table_align }
    }

    pub fn make_cache(cfg: &Config) -> Cache {
        let hb = SimHashBuilder::new(cfg.mode, cfg.salt);
        match cfg.ctor {
            Ctor::WithHasher => Cache::with_hasher(cfg.max_size, hb),
            Ctor::WithCapacityAndHasher(n) => Cache::with_capacity_and_hasher(cfg.max_size, n, hb),
        }
    }

    pub fn drop_held(&mut self) {
        self.held_k.clear();
        self.held_v.clear();
    }

    fn hold_k(&mut self, k: SimKey) -> KeyRet {
        let r = KeyRet { id: k.id.0, tok: k.tok };
        self.held_k.push(k);
        r
    }

    fn hold_v(&mut self, v: SimVal) -> ValRet {
        let r = ValRet { tok: v.tok, heap: v.heap };
        self.held_v.push(v);
        r
    }
}

fn addr<T>(r: &T) -> usize {
    r as *const T as usize
}

const ITER_ALIVE_PANIC: &str = "panic_with_iterator_alive";

/// Drives an iterator through a script of next / next_back / nth / nth_back calls and ends it as
/// `end` says: drop, forget, dropped by an unwinding panic of the caller, or consumed by one of the
/// provided methods an implementation may override (count, last, fold).
fn drive<I: DoubleEndedIterator>(mut it: I, script: &[bool], skips: &[u8], end: EndMode, items: &mut Vec<IterItem>, mut on_item: impl FnMut(I::Item) -> IterItem) {
    for (n, &front) in script.iter().enumerate() {
        let k = skips.get(n).copied().unwrap_or(0) as usize;
        let x = match (front, k) {
            (true, 0) => it.next(),
            (false, 0) => it.next_back(),
            (true, k) => it.nth(k),
            (false, k) => it.nth_back(k),
        };
        items.push(match x {
            None => IterItem::None,
            Some(x) => on_item(x),
        });
    }
    match end {
        EndMode::Drop => drop(it),
        EndMode::Forget => std::mem::forget(it),
        EndMode::PanicDrop => {
            let _alive = it;
            std::panic::panic_any(Injected(ITER_ALIVE_PANIC));
        }
        EndMode::Count => items.push(IterItem::Count(it.count())),
        EndMode::Last => {
            let x = it.last();
            items.push(match x {
                None => IterItem::None,
                Some(x) => on_item(x),
            });
        }
        EndMode::Fold => it.fold((), |(), x| items.push(on_item(x))),
        EndMode::RFold => it.rfold((), |(), x| items.push(on_item(x))),
    }
}

/// Runs `f`; an unwinding "iterator alive" panic raised by `finish` is absorbed here (everything
/// else propagates).
fn absorb_iter_panic(f: impl FnOnce()) {
    if let Err(e) = std::panic::catch_unwind(std::panic::AssertUnwindSafe(f)) {
        match e.downcast_ref::<Injected>() {
            Some(i) if i.0 == ITER_ALIVE_PANIC => {}
            _ => std::panic::resume_unwind(e),
        }
    }
}

fn eref(o: Option<(&SimKey, &SimVal)>) -> Outcome {
    Outcome::EntryRef(o.map(|(k, v)| (k.tok, v.tok, addr(k), addr(v))))
}

/// Input-domain guard: sizes must be representable. An operation whose entry size
/// (overhead + key heap + value heap), or whose mutated entry size, does not fit in usize is
/// outside every property's domain and is skipped (this can only arise when shrinking or fault
/// injection changed which entry a concrete `Mutate` hits).
pub fn domain_ok(w: &World, op: &Op, overhead: usize) -> bool {
    match &op.kind {
        OpKind::Insert { kh, vh, .. } | OpKind::TryInsert { kh, vh, .. } => {
            overhead.checked_add(*kh).and_then(|x| x.checked_add(*vh)).is_some()
        }
        OpKind::Mutate { k, vh, .. } => {
            let c = match &w.caches[op.target as usize] {
                Some(c) => c,
                None => return true,
            };
            // direct field reads of the stored key; lookup callbacks are discarded by the caller
            match c.peek_entry(&KeyId(*k)) {
                Some((key, _)) => overhead.checked_add(key.heap).and_then(|x| x.checked_add(*vh)).is_some(),
                None => true,
            }
        }
        _ => true,
    }
}

/// Executes `op`; may unwind (the caller wraps it in catch_unwind).
pub fn exec(w: &mut World, op: &Op) -> Outcome {
    let t = op.target as usize;
    if w.caches[t].is_none() {
        return Outcome::Skipped;
    }
    // operations that move the cache out of its slot
    match &op.kind {
        OpKind::CloneTo => {
            let c = w.caches[t].as_ref().unwrap().clone();
            // the old occupant of the other slot is dropped here
            w.caches[1 - t] = Some(c);
            return Outcome::Cloned;
        }
        OpKind::CloneFrom => {
            let (a, b) = w.caches.split_at_mut(1);
            let (src, dst) = if t == 0 { (&a[0], &mut b[0]) } else { (&b[0], &mut a[0]) };
            match dst {
                Some(d) => d.clone_from(src.as_ref().unwrap()),
                None => *dst = Some(src.as_ref().unwrap().clone()),
            }
            return Outcome::Cloned;
        }
        OpKind::DropCache | OpKind::DropCacheUnwinding => {
            let c = w.caches[t].take();
            if matches!(op.kind, OpKind::DropCacheUnwinding) {
                absorb_iter_panic(move || {
                    let _alive = c;
                    std::panic::panic_any(Injected(ITER_ALIVE_PANIC));
                });
            } else {
                drop(c);
            }
            if t == 0 {
                w.caches[0] = Some(World::make_cache(&w.cfg));
            }
            return Outcome::Unit;
        }
        OpKind::IterScript { kind, script, end, skips } if kind.consumes_cache() => {
            let c = w.caches[t].take().unwrap();
            let out = run_owning(w, c, *kind, script, skips, *end);
            w.caches[t] = Some(World::make_cache(&w.cfg));
            return out;
        }
        _ => {}
    }

    let mut held_k: Vec<SimKey> = Vec::new();
    let mut held_v: Vec<SimVal> = Vec::new();
    let table_align = w.table_align;
    let counter = {
        w.closure_counter += 1;
        w.closure_counter
    };
    let cache = w.caches[t].as_mut().unwrap();
    let mut hk = |k: SimKey, held: &mut Vec<SimKey>| {
        let r = KeyRet { id: k.id.0, tok: k.tok };
        held.push(k);
        r
    };
    let hv = |v: SimVal, held: &mut Vec<SimVal>| {
        let r = ValRet { tok: v.tok, heap: v.heap };
        held.push(v);
        r
    };

    macro_rules! lookup {
        ($k:expr, $owned:expr, |$q:ident| $body:expr) => {{
            if $owned {
                let probe = SimKey::new($k, 0);
                let $q = &probe;
                let r = $body;
                drop(probe);
                r
            } else {
                let id = KeyId($k);
                let $q = &id;
                $body
            }
        }};
    }

    let out = match &op.kind {
        OpKind::Insert { k, kh, vh } => {
            let key = SimKey::new(*k, *kh);
            let val = SimVal::new(*vh);
            match cache.insert(key, val) {
                Ok(old) => Outcome::InsertOk(old.map(|v| hv(v, &mut held_v))),
                Err(InsertError::EntryTooLarge { key, value, entry_size, max_size }) => Outcome::InsertErr {
                    k: hk(key, &mut held_k),
                    v: hv(value, &mut held_v),
                    entry_size,
                    max_size,
                },
            }
        }
        OpKind::TryInsert { k, kh, vh } => {
            let key = SimKey::new(*k, *kh);
            let val = SimVal::new(*vh);
            match cache.try_insert(key, val) {
                Ok(()) => Outcome::TryInsertOk,
                Err(e) => {
                    let (variant, entry_size, max_size, free_memory) = match &e {
                        TryInsertError::OccupiedEntry { .. } => (TryVariant::Occupied, None, None, None),
                        TryInsertError::WouldEjectLru { entry_size, free_memory, .. } => {
                            (TryVariant::WouldEject, Some(*entry_size), None, Some(*free_memory))
                        }
                        TryInsertError::EntryTooLarge { entry_size, max_size, .. } => {
                            (TryVariant::TooLarge, Some(*entry_size), Some(*max_size), None)
                        }
                    };
                    let (ek, ev) = e.entry();
                    let a1 = (ek.tok, ev.tok);
                    let a2 = (e.key().tok, e.value().tok);
                    let (kid, vheap) = (e.key().id.0, e.value().heap);
                    // exercise one of the three consuming accessors, deterministically by token
                    let (kret, vret, accessors_ok) = match a1.0 % 3 {
                        0 => {
                            let (key, value) = e.into_entry();
                            let ok = a1 == (key.tok, value.tok) && a2 == a1;
                            (hk(key, &mut held_k), hv(value, &mut held_v), ok)
                        }
                        1 => {
                            // into_key drops the value inside the call
                            let key = e.into_key();
                            let ok = a1.0 == key.tok && a2 == a1;
                            (hk(key, &mut held_k), ValRet { tok: a1.1, heap: vheap }, ok)
                        }
                        _ => {
                            let value = e.into_value();
                            let ok = a1.1 == value.tok && a2 == a1;
                            (KeyRet { id: kid, tok: a1.0 }, hv(value, &mut held_v), ok)
                        }
                    };
                    Outcome::TryInsertErr {
                        variant,
                        k: kret,
                        v: vret,
                        entry_size,
                        max_size,
                        free_memory,
                        accessors_ok,
                    }
                }
            }
        }
        OpKind::Get { k, owned } => {
            Outcome::ValRef(lookup!(*k, *owned, |q| cache.get(q).map(|v| (v.tok, addr(v)))))
        }
        OpKind::GetEntry { k, owned } => lookup!(*k, *owned, |q| eref(cache.get_entry(q))),
        OpKind::Touch { k, owned } => {
            lookup!(*k, *owned, |q| cache.touch(q));
            Outcome::Unit
        }
        OpKind::GetLru => eref(cache.get_lru()),
        OpKind::Peek { k, owned } => {
            Outcome::ValRef(lookup!(*k, *owned, |q| cache.peek(q).map(|v| (v.tok, addr(v)))))
        }
        OpKind::PeekEntry { k, owned } => lookup!(*k, *owned, |q| eref(cache.peek_entry(q))),
        OpKind::Contains { k, owned } => Outcome::Bool(lookup!(*k, *owned, |q| cache.contains(q))),
        OpKind::PeekLru => eref(cache.peek_lru()),
        OpKind::PeekMru => eref(cache.peek_mru()),
        OpKind::Remove { k, owned } => {
            let r = lookup!(*k, *owned, |q| cache.remove(q));
            Outcome::RemovedVal(r.map(|v| hv(v, &mut held_v)))
        }
        OpKind::RemoveEntry { k, owned } => {
            let r = lookup!(*k, *owned, |q| cache.remove_entry(q));
            Outcome::RemovedEntry(r.map(|(k, v)| (hk(k, &mut held_k), hv(v, &mut held_v))))
        }
        OpKind::RemoveLru => {
            let r = cache.remove_lru();
            Outcome::RemovedEntry(r.map(|(k, v)| (hk(k, &mut held_k), hv(v, &mut held_v))))
        }
        OpKind::RemoveMru => {
            let r = cache.remove_mru();
            Outcome::RemovedEntry(r.map(|(k, v)| (hk(k, &mut held_k), hv(v, &mut held_v))))
        }
        OpKind::Mutate { k, owned, vh, panic } => {
            let vh = *vh;
            let pm = *panic;
            let f = move |v: &mut SimVal| {
                log_closure(v.tok);
                if pm == ClosurePanic::Before {
                    std::panic::panic_any(Injected("panic_in_mutate_closure_before"));
                }
                v.heap = vh;
                if pm == ClosurePanic::After {
                    std::panic::panic_any(Injected("panic_in_mutate_closure_after"));
                }
                (counter, v.tok)
            };
            let r = lookup!(*k, *owned, |q| cache.mutate(q, f));
            match r {
                Ok(x) => Outcome::MutateOk(x),
                Err(MutateError::EntryTooLarge { key, value, old_entry_size, new_entry_size, max_size }) => {
                    Outcome::MutateErr {
                        k: hk(key, &mut held_k),
                        v: hv(value, &mut held_v),
                        old_entry_size,
                        new_entry_size,
                        max_size,
                    }
                }
            }
        }
        OpKind::SetMaxSize { m } => {
            cache.set_max_size(*m);
            Outcome::Unit
        }
        OpKind::Retain { keep, panic_at } => {
            let mut i = 0u32;
            cache.retain(|k, v| {
                log_pred(k.tok, v.tok);
                if Some(i) == *panic_at {
                    std::panic::panic_any(Injected("panic_in_retain_predicate"));
                }
                let r = keep.get(i as usize).copied().unwrap_or(true);
                i += 1;
                r
            });
            Outcome::Unit
        }
        OpKind::Clear => {
            cache.clear();
            Outcome::Unit
        }
        OpKind::Reserve { a } => {
            cache.reserve(*a);
            Outcome::Reserve(Ok(()))
        }
        OpKind::TryReserve { a, refuse } => {
            if *refuse {
                alloc::arm_refusal(table_align);
            }
            let r = cache.try_reserve(*a);
            alloc::disarm_refusal();
            Outcome::Reserve(match r {
                Ok(()) => Ok(()),
                Err(TryReserveError::CapacityOverflow) => Err(0),
                Err(TryReserveError::AllocError { .. }) => Err(1),
            })
        }
        OpKind::ShrinkTo { c } => {
            cache.shrink_to(*c);
            Outcome::Unit
        }
        OpKind::ShrinkToFit => {
            cache.shrink_to_fit();
            Outcome::Unit
        }
        OpKind::DebugFmt => {
            // both renderings; the pretty one is appended after a separator and must show the same order
            let plain = format!("{:?}", cache);
            let pretty = format!("{:#?}", cache);
            Outcome::Debug(format!("{}\u{1}{}", plain, pretty))
        }
        OpKind::Getters => {
            let h = cache.hasher();
            Outcome::Getters {
                len: cache.len(),
                is_empty: cache.is_empty(),
                cur: cache.current_size(),
                max: cache.max_size(),
                cap: cache.capacity(),
                hasher_ok: h.mode == w.cfg.mode && (h.salt == w.cfg.salt || w.cfg.mode == HashMode::Rekey),
            }
        }
        OpKind::IterScript { kind, script, end, skips } => {
            let mut items = Vec::with_capacity(script.len() + 1);
            let items_ref = &mut items;
            let held_k_ref = &mut held_k;
            let held_v_ref = &mut held_v;
            absorb_iter_panic(|| match kind {
                IterKind::Iter => drive(cache.iter(), script, skips, *end, items_ref, |(k, v)| IterItem::Pair { ktok: k.tok, vtok: v.tok, kaddr: addr(k), vaddr: addr(v) }),
                IterKind::Keys => drive(cache.keys(), script, skips, *end, items_ref, |k| IterItem::Key { ktok: k.tok, kaddr: addr(k) }),
                IterKind::Values => drive(cache.values(), script, skips, *end, items_ref, |v| IterItem::Val { vtok: v.tok, vaddr: addr(v) }),
                IterKind::Drain => drive(cache.drain(), script, skips, *end, items_ref, |(k, v)| {
                    let item = IterItem::Pair { ktok: k.tok, vtok: v.tok, kaddr: 0, vaddr: 0 };
                    held_k_ref.push(k);
                    held_v_ref.push(v);
                    item
                }),
                _ => unreachable!(),
            });
            Outcome::Iter(items)
        }
        OpKind::CloneTo | OpKind::CloneFrom | OpKind::DropCache | OpKind::DropCacheUnwinding => unreachable!(),
    };
    w.held_k.append(&mut held_k);
    w.held_v.append(&mut held_v);
    let _ = &mut hk;
    out
}

fn run_owning(w: &mut World, c: Cache, kind: IterKind, script: &[bool], skips: &[u8], end: EndMode) -> Outcome {
    let mut items = Vec::with_capacity(script.len() + 1);
    let items_ref = &mut items;
    let held_k = &mut w.held_k;
    let held_v = &mut w.held_v;
    absorb_iter_panic(|| match kind {
        IterKind::IntoIter => drive(c.into_iter(), script, skips, end, items_ref, |(k, v)| {
            let item = IterItem::Pair { ktok: k.tok, vtok: v.tok, kaddr: 0, vaddr: 0 };
            held_k.push(k);
            held_v.push(v);
            item
        }),
        IterKind::IntoKeys => drive(c.into_keys(), script, skips, end, items_ref, |k| {
            let item = IterItem::Key { ktok: k.tok, kaddr: 0 };
            held_k.push(k);
            item
        }),
        IterKind::IntoValues => drive(c.into_values(), script, skips, end, items_ref, |v| {
            let item = IterItem::Val { vtok: v.tok, vaddr: 0 };
            held_v.push(v);
            item
        }),
        _ => unreachable!(),
    });
    Outcome::Iter(items)
}
