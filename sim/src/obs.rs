//! Observation function: everything observable about a cache through `&self` API plus the
//! read-only hook, together with the internal-consistency findings of that observation.
//! Runs with all fuses disarmed; its callbacks are discarded (excluded from C20).

use crate::stubs::*;
use lru_mem::VerifStructure;

#[derive(Clone, Debug, PartialEq, Eq)]
pub struct EObs {
    pub id: u32,
    pub ktok: u32,
    pub vtok: u32,
    pub kheap: usize,
    pub vheap: usize,
    /// lru_mem::entry_size(k, v)
    pub size: usize,
    /// size recorded in the node (hook)
    pub recorded: usize,
    pub kaddr: usize,
    pub vaddr: usize,
}

#[derive(Clone, Debug, PartialEq, Eq)]
pub struct Obs {
    pub len: usize,
    pub is_empty: bool,
    pub cur: usize,
    pub max: usize,
    pub cap: usize,
    /// least- to most-recently-used, from `iter()`
    pub entries: Vec<EObs>,
    pub hook: Option<VerifStructure>,
    pub debug: Option<String>,
    /// structure is broken: nothing beyond the hook walk was attempted
    pub broken: bool,
}

impl Obs {
    pub fn ids(&self) -> Vec<u32> {
        self.entries.iter().map(|e| e.id).collect()
    }
    pub fn find(&self, id: u32) -> Option<usize> {
        self.entries.iter().position(|e| e.id == id)
    }
    pub fn sum_sizes(&self) -> usize {
        self.entries.iter().fold(0usize, |a, e| a.wrapping_add(e.size))
    }
    pub fn table_ptr(&self) -> usize {
        self.hook.as_ref().map(|h| h.table_ptr).unwrap_or(0)
    }
    pub fn buckets(&self) -> usize {
        self.hook.as_ref().map(|h| h.buckets).unwrap_or(0)
    }
    /// address-free digest of the abstract state
    pub fn digest(&self, d: &mut crate::prng::Digest) {
        d.usize(self.len);
        d.usize(self.cur);
        d.usize(self.max);
        d.usize(self.cap);
        for e in &self.entries {
            d.u64(e.id as u64);
            d.usize(e.size);
        }
    }
    /// digest including identities (tokens) but no addresses: used for the determinism self-test
    pub fn digest_full(&self, d: &mut crate::prng::Digest) {
        self.digest(d);
        for e in &self.entries {
            d.u64(((e.ktok as u64) << 32) | e.vtok as u64);
            d.usize(e.recorded);
        }
        d.usize(self.buckets());
        if let Some(s) = &self.debug {
            d.bytes(s.as_bytes());
        }
    }
}

/// Classes of findings an observation can make; mapped to properties by the caller according to
/// the run mode (fault-free / after an injected panic / after a forgotten iterator).
#[derive(Clone, Copy, Debug, PartialEq, Eq, Hash)]
pub enum ObsClass {
    /// hook walker rejected the list (dangling link, asymmetry, wrong node count)
    Walk,
    /// iter() vs iter().rev() not mirror images / wrong number of items
    Mirror,
    /// a lookup disagrees with traversal (absent, or not the very same entry)
    Lookup,
    /// the cache holds a key/value instance that is dropped or garbage
    Token,
    /// sum of recorded sizes != current_size
    AcctRecordedSum,
    /// a node's recorded size != entry_size of the pair it holds
    AcctEntry,
    /// current_size != sum of entry_size over iter()
    AcctApi,
    /// len() / is_empty() disagree with the number of entries
    Len,
    /// current_size exceeds max_size
    BoundCur,
    /// the real sum of entry sizes exceeds max_size
    BoundSum,
    /// keys()/values()/peek_lru/peek_mru/Debug disagree with iter()
    Views,
    /// the same key id appears twice
    Dup,
}

/// above this length the observation samples the per-entry callbacks (see `observe`)
pub const LIGHT_LEN: usize = 8192;

pub struct ObsOpts {
    pub universe: u32,
    /// do the Debug formatting comparison
    pub debug_fmt: bool,
}

fn addr<T>(r: &T) -> usize {
    r as *const T as usize
}

pub fn observe(cache: &Cache, opts: &ObsOpts, out: &mut Vec<(ObsClass, String)>) -> Obs {
    let len = cache.len();
    let mut obs = Obs {
        len,
        is_empty: cache.is_empty(),
        cur: cache.current_size(),
        max: cache.max_size(),
        cap: cache.capacity(),
        entries: Vec::new(),
        hook: None,
        debug: None,
        broken: false,
    };

    // 1. hook walk first: never follow a link that is not validated
    match cache.verif_structure() {
        Ok(h) => obs.hook = Some(h),
        Err(e) => {
            out.push((ObsClass::Walk, e));
            obs.broken = true;
            return obs;
        }
    }
    let hook = obs.hook.as_ref().unwrap();
    if hook.items != len {
        out.push((ObsClass::Len, format!("hook items {} != len() {}", hook.items, len)));
    }

    // 2. forward traversal (bounded)
    let mut dead = false;
    for (i, (k, v)) in cache.iter().enumerate() {
        if i >= len + 1 {
            out.push((ObsClass::Mirror, format!("iter() yields more than len()+1 = {} items", len + 1)));
            break;
        }
        let ks = tok_state(k.tok);
        let vs = tok_state(v.tok);
        if ks != ST_ALIVE || vs != ST_ALIVE {
            out.push((
                ObsClass::Token,
                format!(
                    "entry {} (from LRU) holds key token #{} ({}) / value token #{} ({})",
                    i,
                    k.tok as i32,
                    st_name(ks),
                    v.tok as i32,
                    st_name(vs)
                ),
            ));
            dead = true;
        }
        obs.entries.push(EObs {
            id: k.id.0,
            ktok: k.tok,
            vtok: v.tok,
            kheap: k.heap,
            vheap: v.heap,
            size: 0,
            recorded: 0,
            kaddr: addr(k),
            vaddr: addr(v),
        });
    }
    if obs.entries.len() != len {
        out.push((ObsClass::Mirror, format!("iter() yields {} items, len() is {}", obs.entries.len(), len)));
    }
    if obs.is_empty != (len == 0) {
        out.push((ObsClass::Len, format!("is_empty() = {} but len() = {}", obs.is_empty, len)));
    }
    if dead {
        // do not call user-code paths on dead instances
        obs.broken = true;
        return obs;
    }

    // recorded sizes from the hook (nodes are MRU -> LRU)
    let n = hook.nodes_mru_to_lru.len();
    if n == obs.entries.len() {
        let mut recorded_sum = 0usize;
        for (i, e) in obs.entries.iter_mut().enumerate() {
            let node = &hook.nodes_mru_to_lru[n - 1 - i];
            e.recorded = node.size;
            recorded_sum = recorded_sum.wrapping_add(node.size);
        }
        if recorded_sum != hook.current_size {
            out.push((
                ObsClass::AcctRecordedSum,
                format!("sum of recorded entry sizes {} != current_size {}", recorded_sum, hook.current_size),
            ));
        }
    }

    // entry_size through the real function (callbacks discarded by the caller)
    // caches beyond LIGHT_LEN entries: the per-entry work that calls back into user code (entry_size,
    // three lookups per entry) is done for a deterministic sample of entries only; everything that is
    // pointer chasing (all traversals, the hook walk, recorded sizes) still covers every entry
    let light = obs.entries.len() > LIGHT_LEN;
    let stride = if light { obs.entries.len() / 256 } else { 1 };
    let phase = if light { (obs.cur / 7 + len) % stride } else { 0 };
    let sampled = |i: usize| !light || i % stride == phase || i < 32 || i + 32 >= len;
    for (i, (k, v)) in cache.iter().enumerate() {
        if i >= obs.entries.len() {
            break;
        }
        if !sampled(i) {
            // same formula as entry_size, read from the fields (no callback); overflow cannot be
            // represented anyway
            obs.entries[i].size = std::mem::size_of::<usize>().wrapping_mul(3).wrapping_add(std::mem::size_of::<SimKey>()).wrapping_add(std::mem::size_of::<SimVal>()).wrapping_add(k.heap).wrapping_add(v.heap);
            continue;
        }
        // a (mutated) cache can pair a key and a value whose sizes do not add up within usize:
        // the real function then panics on overflow in this build; that is a finding, not a crash
        let s = match std::panic::catch_unwind(std::panic::AssertUnwindSafe(|| lru_mem::entry_size(k, v))) {
            Ok(s) => s,
            Err(_) => {
                out.push((ObsClass::AcctEntry, format!("entry {} (from LRU, key {}): entry_size(k, v) is not representable (key heap {}, value heap {})", i, k.id.0, k.heap, v.heap)));
                obs.broken = true;
                usize::MAX
            }
        };
        obs.entries[i].size = s;
    }
    if obs.broken {
        return obs;
    }
    for (i, e) in obs.entries.iter().enumerate() {
        if n == obs.entries.len() && e.recorded != e.size {
            out.push((
                ObsClass::AcctEntry,
                format!(
                    "entry {} (from LRU, key {}): recorded size {} != entry_size(k, v) {}",
                    i, e.id, e.recorded, e.size
                ),
            ));
            break;
        }
    }
    let sum = obs.sum_sizes();
    if sum != obs.cur {
        out.push((ObsClass::AcctApi, format!("current_size() {} != sum of entry_size over iter() {}", obs.cur, sum)));
    }
    if (obs.cur == 0) != obs.is_empty {
        out.push((ObsClass::AcctApi, format!("current_size() {} but is_empty() = {}", obs.cur, obs.is_empty)));
    }
    if obs.cur > obs.max {
        out.push((ObsClass::BoundCur, format!("current_size() {} > max_size() {}", obs.cur, obs.max)));
    } else if sum > obs.max {
        out.push((ObsClass::BoundSum, format!("sum of entry_size {} > max_size() {}", sum, obs.max)));
    }

    // 3. reverse traversal must mirror
    {
        let mut j = obs.entries.len();
        let mut ok = true;
        let mut count = 0usize;
        for (k, v) in cache.iter().rev() {
            count += 1;
            if count > len + 1 {
                break;
            }
            if j == 0 {
                ok = false;
                continue;
            }
            j -= 1;
            let e = &obs.entries[j];
            if e.kaddr != addr(k) || e.vaddr != addr(v) {
                ok = false;
            }
        }
        if !ok || count != obs.entries.len() {
            out.push((
                ObsClass::Mirror,
                format!(
                    "iter().rev() ({} items) is not the mirror image of iter() ({} items)",
                    count,
                    obs.entries.len()
                ),
            ));
        }
    }

    // 4. keys(), values(), peek_lru, peek_mru
    {
        let ks: Vec<usize> = cache.keys().take(len + 1).map(addr).collect();
        let vs: Vec<usize> = cache.values().take(len + 1).map(addr).collect();
        let eks: Vec<usize> = obs.entries.iter().map(|e| e.kaddr).collect();
        let evs: Vec<usize> = obs.entries.iter().map(|e| e.vaddr).collect();
        if ks != eks {
            out.push((ObsClass::Views, "keys() differs from the keys of iter()".into()));
        }
        if vs != evs {
            out.push((ObsClass::Views, "values() differs from the values of iter()".into()));
        }
        let rks: Vec<usize> = cache.keys().rev().take(len + 1).map(addr).collect();
        let rvs: Vec<usize> = cache.values().rev().take(len + 1).map(addr).collect();
        let mut eks_r = eks.clone();
        eks_r.reverse();
        let mut evs_r = evs.clone();
        evs_r.reverse();
        if rks != eks_r {
            out.push((ObsClass::Views, "keys().rev() is not the reverse of the keys of iter()".into()));
        }
        if rvs != evs_r {
            out.push((ObsClass::Views, "values().rev() is not the reverse of the values of iter()".into()));
        }
        let lru = cache.peek_lru().map(|(k, v)| (addr(k), addr(v)));
        let mru = cache.peek_mru().map(|(k, v)| (addr(k), addr(v)));
        let elru = obs.entries.first().map(|e| (e.kaddr, e.vaddr));
        let emru = obs.entries.last().map(|e| (e.kaddr, e.vaddr));
        if lru != elru {
            out.push((ObsClass::Views, "peek_lru() is not the first entry of iter()".into()));
        }
        if mru != emru {
            out.push((ObsClass::Views, "peek_mru() is not the last entry of iter()".into()));
        }
    }

    // 5. duplicates and lookups
    {
        let mut ids: Vec<u32> = obs.ids();
        ids.sort_unstable();
        for w in ids.windows(2) {
            if w[0] == w[1] {
                out.push((ObsClass::Dup, format!("key id {} appears twice in iteration", w[0])));
                break;
            }
        }
        let mut probe = SimKey::new(0, 0);
        let mut bad = 0;
        for (i, e) in obs.entries.iter().enumerate() {
            if !sampled(i) {
                continue;
            }
            let byid = cache.peek_entry(&KeyId(e.id)).map(|(k, v)| (addr(k), addr(v)));
            probe.id = KeyId(e.id);
            let owned = if i % 2 == 0 {
                cache.peek(&probe).map(addr)
            } else {
                cache.peek_entry(&probe).map(|(_, v)| addr(v))
            };
            let c = if i % 2 == 0 { cache.contains(&KeyId(e.id)) } else { cache.contains(&probe) };
            if byid != Some((e.kaddr, e.vaddr)) || owned != Some(e.vaddr) || !c {
                if bad == 0 {
                    out.push((
                        ObsClass::Lookup,
                        format!(
                            "entry {} (from LRU, key {}): peek_entry(borrowed) {}, lookup(owned) {}, contains {} — not the very entry traversal shows",
                            i,
                            e.id,
                            match byid { None => "finds nothing", Some(x) if x == (e.kaddr, e.vaddr) => "ok", _ => "finds a different entry" },
                            match owned { None => "finds nothing", Some(x) if x == e.vaddr => "ok", _ => "finds a different entry" },
                            c
                        ),
                    ));
                }
                bad += 1;
            }
        }
        // absent keys of the universe (all if small, else a deterministic sample)
        let uni = opts.universe;
        let step = if uni <= 64 { 1 } else { (uni / 32).max(1) };
        let mut id = 0u32;
        let offset = (obs.cur as u32).wrapping_add(len as u32) % step;
        while id < uni {
            let q = id + if step > 1 { offset } else { 0 };
            if q < uni && ids.binary_search(&q).is_err() {
                probe.id = KeyId(q);
                let a = cache.contains(&KeyId(q));
                let b = cache.peek(&probe).is_some();
                let c = cache.peek_entry(&KeyId(q)).is_some();
                if a || b || c {
                    out.push((
                        ObsClass::Lookup,
                        format!("key {} is not in iteration but lookups find it (contains {}, peek {}, peek_entry {})", q, a, b, c),
                    ));
                    break;
                }
            }
            id += step;
        }
        drop(probe);
    }

    // 6. Debug formatting
    if opts.debug_fmt && len <= 24 {
        let s = format!("{:?}", cache);
        let mut exp = String::from("{");
        for (i, e) in obs.entries.iter().enumerate() {
            if i > 0 {
                exp.push_str(", ");
            }
            exp.push_str(&format!("k{}: v{}", e.id, e.vtok));
        }
        exp.push('}');
        if crate::check::debug_key_sequence(&s) != obs.ids() {
            out.push((ObsClass::Views, format!("Debug output {} differs from iter() order {}", s, exp)));
        }
        obs.debug = Some(s);
    }

    obs
}

fn st_name(s: u8) -> &'static str {
    match s {
        ST_ALIVE => "alive",
        ST_DROPPED => "dropped",
        _ => "garbage",
    }
}

/// Cheap post-fault structural look: hook walk only.
pub fn hook_only(cache: &Cache) -> Result<VerifStructure, String> {
    cache.verif_structure()
}
