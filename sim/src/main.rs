mod alloc;
mod alt;
mod c09;
mod check;
mod coord;
mod exec;
mod faults;
mod gen;
mod minimise;
mod obs;
mod ops;
mod prng;
mod props;
mod run;
mod sanitize;
mod stubs;
mod threads;

#[global_allocator]
static GLOBAL: alloc::SimAlloc = alloc::SimAlloc;

fn usage() -> i32 {
    eprintln!("usage: lrusim check <Cxx> <quick|thorough> | replay <file> | worker ... | scan <Cxx> <n> [from] | selftest-determinism");
    2
}

fn main() {
    let args: Vec<String> = std::env::args().collect();
    std::panic::set_hook(Box::new(|info| {
        if info.payload().is::<stubs::Injected>() {
            return;
        }
        // foreign panics inside catch_unwind are reported by the engine; keep stderr quiet
        if std::env::var_os("LRUSIM_VERBOSE_PANICS").is_some() {
            eprintln!("panic: {}", info);
        }
    }));
    let code = match args.get(1).map(|s| s.as_str()) {
        Some("check") if args.len() >= 4 => coord::check_main(&args[2], &args[3]),
        Some("worker") if args.len() >= 8 => coord::worker_main(&args[2..]),
        Some("replay") if args.len() >= 3 => coord::replay_main(&args[2]),
        Some("scan") if args.len() >= 4 => scan(&args),
        Some("threads") => threads::threads_main(&args[2..]),
        Some("selftest-determinism") => coord::selftest_determinism(&args[2..]),
        _ => usage(),
    };
    std::process::exit(code);
}

/// Development aid: run generated units in-process and print every violation class found.
fn scan(args: &[String]) -> i32 {
    let env = run::detect_env();
    let prop = args[2].clone();
    let n: u64 = args[3].parse().unwrap_or(100);
    let from: u64 = args.get(4).and_then(|s| s.parse().ok()).unwrap_or(0);
    let stream = props::prop_num(&prop) as u64;
    let t0 = std::time::Instant::now();
    let mut steps = 0;
    let mut nv = 0;
    let mut classes = std::collections::BTreeMap::new();
    for i in from..n {
        let seed = prng::derive(1, stream, i);
        let (trace, out) = run::run_generated(&env, &prop, false, 1, i, seed);
        steps += out.steps;
        for v in &out.viols {
            nv += 1;
            let e = classes.entry(format!("{} {}", props::props_names(v.props), v.class)).or_insert(0u32);
            *e += 1;
            if *e == 1 {
                println!("run {} step {} [{}] {}: {}", i, v.step, props::props_names(v.props), v.class, v.msg);
                if trace.ops.len() < 40 {
                    for (j, op) in trace.ops.iter().enumerate() {
                        println!("   {} {}", j, ops::fmt_op(op));
                    }
                    println!("   cfg {:?}", trace.config);
                }
            }
        }
    }
    for (k, v) in &classes {
        println!("{:6} {}", v, k);
    }
    println!("runs {} steps {} viols {} in {:?} (overhead {}, align {})", n - from, steps, nv, t0.elapsed(), env.overhead, env.table_align);
    0
}
