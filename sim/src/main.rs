mod alloc;
mod check;
mod exec;
mod gen;
mod obs;
mod ops;
mod prng;
mod props;
mod run;
mod stubs;

#[global_allocator]
static GLOBAL: alloc::SimAlloc = alloc::SimAlloc;

fn main() {
    let args: Vec<String> = std::env::args().collect();
    std::panic::set_hook(Box::new(|info| {
        if info.payload().is::<stubs::Injected>() {
            return;
        }
        // foreign panics inside catch_unwind are reported by the engine; keep stderr quiet
        if std::env::var_os("LRUSIM_VERBOSE_PANICS").is_some() {
            eprintln!("panic: {}", info);
        }
    }));
    let env = run::detect_env();
    let prop = args.get(1).cloned().unwrap_or("C01".into());
    let n: u64 = args.get(2).and_then(|s| s.parse().ok()).unwrap_or(100);
    let from: u64 = args.get(3).and_then(|s| s.parse().ok()).unwrap_or(0);
    let stream = props::prop_num(&prop) as u64;
    let t0 = std::time::Instant::now();
    let mut steps = 0;
    let mut nv = 0;
    let mut classes = std::collections::BTreeMap::new();
    for i in from..n {
        if std::env::var_os("LRUSIM_TRACE").is_some() { eprintln!("run {}", i); }
        let seed = prng::derive(1, stream, i);
        let (trace, out) = run::run_generated(&env, &prop, false, 1, i, seed);
        steps += out.steps;
        for v in &out.viols {
            nv += 1;
            let e = classes.entry(format!("{} {}", props::props_names(v.props), v.class)).or_insert(0u32);
            *e += 1;
            if *e == 1 {
                println!("run {} step {} [{}] {}: {}", i, v.step, props::props_names(v.props), v.class, v.msg);
                if trace.ops.len() < 40 {
                    for (j, op) in trace.ops.iter().enumerate() {
                        println!("   {} {}", j, ops::fmt_op(op));
                    }
                    println!("   cfg {:?}", trace.config);
                }
            }
        }
    }
    for (k, v) in &classes {
        println!("{:6} {}", v, k);
    }
    println!("runs {} steps {} viols {} in {:?} (overhead {}, align {})", n, steps, nv, t0.elapsed(), env.overhead, env.table_align);
}
