//! Sanitizer tiers (thorough): the same seeded units re-executed
//!  (a) in a build with AddressSanitizer (nightly `-Zsanitizer=address`) and real heap payloads
//!      inside the stub key/value types (`--features payload`), and
//!  (b) under Miri (aliasing-model checks off: the properties speak of freed / moved-out /
//!      uninitialised memory, not of Stacked/Tree Borrows).
//! They see reads and writes of freed, moved-out or uninitialised memory *during* an operation
//! that nevertheless ends in a coherent structure, which the ledger and the hook walker cannot.

use crate::coord::{replay_dir, root_dir, Trace0};
use std::path::PathBuf;
use std::process::Command;
use std::time::{Duration, Instant};

pub struct SanOutcome {
    pub runs: u64,
    pub violations: Vec<(String, String, String)>, // (class, message, replay path)
    pub error: Option<String>,
    pub wall_s: f64,
}

fn sim_dir() -> PathBuf {
    root_dir().join("sim")
}

fn asan_bin() -> PathBuf {
    sim_dir().join("target-asan").join("x86_64-unknown-linux-gnu").join("release").join("lrusim")
}

pub fn build_asan() -> Result<(), String> {
    let out = Command::new("cargo")
        .current_dir(sim_dir())
        .env("RUSTFLAGS", "--cfg lru_mem_verif -Zsanitizer=address")
        .env("CARGO_NET_OFFLINE", "true")
        .args(["+nightly", "build", "--release", "--offline", "--features", "payload", "--target", "x86_64-unknown-linux-gnu", "--target-dir", "target-asan"])
        .output()
        .map_err(|e| format!("cannot run cargo: {}", e))?;
    if !out.status.success() {
        return Err(format!("ASan build failed: {}", String::from_utf8_lossy(&out.stderr).lines().rev().take(12).collect::<Vec<_>>().join(" | ")));
    }
    Ok(())
}

fn read_status(prefix: &std::path::Path) -> u64 {
    match std::fs::read(prefix.with_extension("status")) {
        Ok(b) if b.len() >= 8 => u64::from_le_bytes(b[..8].try_into().unwrap()),
        _ => u64::MAX - 1,
    }
}

fn cleanup(prefix: &std::path::Path) {
    for ext in ["result", "digests", "states", "status", "err"] {
        let _ = std::fs::remove_file(prefix.with_extension(ext));
    }
}

/// Runs units [0, units) of `prop` in the ASan build, `parallel` processes at a time.
pub fn asan_phase(prop: &str, tier: &str, verif_seed: u64, units: u64, parallel: u64) -> SanOutcome {
    let t0 = Instant::now();
    let mut out = SanOutcome { runs: 0, violations: Vec::new(), error: None, wall_s: 0.0 };
    if let Err(e) = build_asan() {
        out.error = Some(e);
        return out;
    }
    let tmp = sim_dir().join("target").join("tmp");
    let _ = std::fs::create_dir_all(&tmp);
    let per = (units + parallel - 1) / parallel;
    let mut children = Vec::new();
    for w in 0..parallel {
        let from = w * per;
        let to = ((w + 1) * per).min(units);
        if from >= to {
            continue;
        }
        let prefix = tmp.join(format!("asan-{}-{}-{}", std::process::id(), prop, w));
        let errf = match std::fs::File::create(prefix.with_extension("err")) {
            Ok(f) => f,
            Err(e) => {
                out.error = Some(format!("cannot create stderr file: {}", e));
                return out;
            }
        };
        let ch = Command::new(asan_bin())
            .env("ASAN_OPTIONS", "detect_leaks=0:allocator_may_return_null=1:abort_on_error=0:halt_on_error=1")
            .args(["worker", prop, tier, &verif_seed.to_string(), &from.to_string(), &to.to_string(), prefix.to_str().unwrap(), "--no-min"])
            .stdout(std::process::Stdio::null())
            .stderr(errf)
            .spawn();
        match ch {
            Ok(c) => children.push((c, prefix, from, to)),
            Err(e) => {
                out.error = Some(format!("cannot spawn ASan worker: {}", e));
                return out;
            }
        }
    }
    for (mut c, prefix, from, to) in children {
        let st = c.wait();
        let err = std::fs::read_to_string(prefix.with_extension("err")).unwrap_or_default();
        let idx = read_status(&prefix);
        match st {
            Ok(s) if s.success() => {
                out.runs += to - from;
                // logical violations found by the ASan-build worker are the native check's business
                // (identical seeds); only sanitizer reports count here
            }
            Ok(_) => {
                if err.contains("AddressSanitizer") {
                    let what = err.lines().find(|l| l.contains("ERROR: AddressSanitizer")).unwrap_or("AddressSanitizer report").trim().to_string();
                    let class = if what.contains("heap-use-after-free") {
                        "asan-heap-use-after-free"
                    } else if what.contains("double-free") {
                        "asan-double-free"
                    } else {
                        "asan-report"
                    };
                    let path = replay_dir().join(format!("{}-{}-{}-{}.json", prop, verif_seed, idx, class));
                    let t = Trace0::seed(prop, verif_seed, idx, class, &what, "asan", tier);
                    let _ = std::fs::write(&path, serde_json::to_string_pretty(&t).unwrap());
                    out.violations.push((class.to_string(), what, path.to_string_lossy().into_owned()));
                    out.runs += idx.saturating_sub(from);
                } else {
                    out.error = Some(format!("ASan worker for runs {}..{} failed at run {} without a sanitizer report: {}", from, to, idx, err.lines().rev().take(8).collect::<Vec<_>>().join(" | ")));
                    cleanup(&prefix);
                    return out;
                }
            }
            Err(e) => {
                out.error = Some(format!("wait failed: {}", e));
                cleanup(&prefix);
                return out;
            }
        }
        cleanup(&prefix);
    }
    out.wall_s = t0.elapsed().as_secs_f64();
    out
}

pub const MIRI_FLAGS: &str = "-Zmiri-disable-stacked-borrows -Zmiri-ignore-leaks -Zmiri-disable-isolation";

fn miri_worker_cmd(prop: &str, tier: &str, verif_seed: u64, from: u64, to: u64, prefix: &std::path::Path) -> Command {
    let mut cmd = Command::new("cargo");
    cmd.current_dir(sim_dir())
        .env("MIRIFLAGS", MIRI_FLAGS)
        .env("CARGO_NET_OFFLINE", "true")
        .env("LRUSIM_ROOT", root_dir())
        .env_remove("RUSTFLAGS")
        .args(["+nightly", "miri", "run", "--offline", "-q", "--features", "payload", "--", "worker", prop, tier, &verif_seed.to_string(), &from.to_string(), &to.to_string(), prefix.to_str().unwrap(), "--no-min"]);
    cmd
}

/// Runs `units` units of `prop` under Miri, one unit per process, `parallel` at a time, within
/// a wall-clock budget.
pub fn miri_phase(prop: &str, tier: &str, verif_seed: u64, units: u64, parallel: usize, budget: Duration) -> SanOutcome {
    let t0 = Instant::now();
    let mut out = SanOutcome { runs: 0, violations: Vec::new(), error: None, wall_s: 0.0 };
    let tmp = sim_dir().join("target").join("tmp");
    let _ = std::fs::create_dir_all(&tmp);
    // warm-up build (a run over an empty range)
    {
        let prefix = tmp.join(format!("miri-{}-{}-warm", std::process::id(), prop));
        let o = miri_worker_cmd(prop, tier, verif_seed, 0, 0, &prefix).output();
        cleanup(&prefix);
        match o {
            Ok(o) if o.status.success() => {}
            Ok(o) => {
                out.error = Some(format!("miri warm-up failed: {}", String::from_utf8_lossy(&o.stderr).lines().rev().take(12).collect::<Vec<_>>().join(" | ")));
                return out;
            }
            Err(e) => {
                out.error = Some(format!("cannot run cargo miri: {}", e));
                return out;
            }
        }
    }
    let mut next = 0u64;
    let mut running: Vec<(u64, std::process::Child, PathBuf)> = Vec::new();
    loop {
        while running.len() < parallel && next < units && t0.elapsed() < budget {
            let prefix = tmp.join(format!("miri-{}-{}-{}", std::process::id(), prop, next));
            let errf = match std::fs::File::create(prefix.with_extension("err")) {
                Ok(f) => f,
                Err(e) => {
                    out.error = Some(format!("cannot create stderr file: {}", e));
                    return out;
                }
            };
            let mut cmd = miri_worker_cmd(prop, tier, verif_seed, next, next + 1, &prefix);
            cmd.stdout(std::process::Stdio::null()).stderr(errf);
            match cmd.spawn() {
                Ok(c) => running.push((next, c, prefix)),
                Err(e) => {
                    out.error = Some(format!("cannot spawn cargo miri: {}", e));
                    return out;
                }
            }
            next += 1;
        }
        if running.is_empty() {
            break;
        }
        let mut i = 0;
        while i < running.len() {
            match running[i].1.try_wait() {
                Ok(Some(st)) => {
                    let (idx, _, prefix) = running.remove(i);
                    let err = std::fs::read_to_string(prefix.with_extension("err")).unwrap_or_default();
                    cleanup(&prefix);
                    if st.success() {
                        out.runs += 1;
                    } else if err.contains("Undefined Behavior") {
                        let what = err.lines().find(|l| l.contains("Undefined Behavior")).unwrap_or("Undefined Behavior").trim().to_string();
                        let class = "miri-ub";
                        let path = replay_dir().join(format!("{}-{}-{}-{}.json", prop, verif_seed, idx, class));
                        let t = Trace0::seed(prop, verif_seed, idx, class, &what, "miri", tier);
                        let _ = std::fs::write(&path, serde_json::to_string_pretty(&t).unwrap());
                        out.violations.push((class.to_string(), what, path.to_string_lossy().into_owned()));
                    } else {
                        out.error = Some(format!("miri run of unit {} failed without a UB report: {}", idx, err.lines().rev().take(8).collect::<Vec<_>>().join(" | ")));
                        return out;
                    }
                }
                Ok(None) => {
                    if t0.elapsed() > budget + Duration::from_secs(240) {
                        let (_, mut c, prefix) = running.remove(i);
                        let _ = c.kill();
                        let _ = c.wait();
                        cleanup(&prefix);
                    } else {
                        i += 1;
                    }
                }
                Err(e) => {
                    out.error = Some(format!("wait failed: {}", e));
                    return out;
                }
            }
        }
        std::thread::sleep(Duration::from_millis(20));
    }
    out.wall_s = t0.elapsed().as_secs_f64();
    out
}

/// Replays a seed-mode trace under the sanitizer that produced it. Returns exit code.
pub fn replay(prop: &str, tier: &str, verif_seed: u64, idx: u64, sanitizer: &str, path: &str) -> i32 {
    let tmp = sim_dir().join("target").join("tmp");
    let _ = std::fs::create_dir_all(&tmp);
    let prefix = tmp.join(format!("replay-{}-{}-{}", std::process::id(), prop, idx));
    let (ok, err) = match sanitizer {
        "asan" => {
            if let Err(e) = build_asan() {
                eprintln!("harness error: {}", e);
                return 2;
            }
            let o = Command::new(asan_bin())
                .env("ASAN_OPTIONS", "detect_leaks=0:allocator_may_return_null=1:abort_on_error=0:halt_on_error=1")
                .args(["worker", prop, tier, &verif_seed.to_string(), &idx.to_string(), &(idx + 1).to_string(), prefix.to_str().unwrap(), "--no-min"])
                .output();
            match o {
                Ok(o) => (o.status.success(), String::from_utf8_lossy(&o.stderr).to_string()),
                Err(e) => {
                    eprintln!("harness error: {}", e);
                    return 2;
                }
            }
        }
        _ => match miri_worker_cmd(prop, tier, verif_seed, idx, idx + 1, &prefix).output() {
            Ok(o) => (o.status.success(), String::from_utf8_lossy(&o.stderr).to_string()),
            Err(e) => {
                eprintln!("harness error: {}", e);
                return 2;
            }
        },
    };
    cleanup(&prefix);
    if !ok && (err.contains("AddressSanitizer") || err.contains("Undefined Behavior")) {
        for l in err.lines().filter(|l| l.contains("ERROR: AddressSanitizer") || l.contains("Undefined Behavior") || l.contains("-->")).take(4) {
            println!("  {}", l.trim());
        }
        println!("VIOLATION property={} replay={}", prop, path);
        1
    } else if ok {
        println!("NOT REPRODUCED: the unit ran clean under {}", sanitizer);
        0
    } else {
        eprintln!("harness error: sanitizer run failed without a report: {}", err.lines().rev().take(8).collect::<Vec<_>>().join(" | "));
        2
    }
}
