//! The simulation engine: executes operations one at a time against the real cache under
//! `catch_unwind`, observes before and after, applies the oracles, keeps the ledger.

use crate::alloc;
use crate::check::*;
use crate::exec::*;
use crate::gen::*;
use crate::obs::*;
use crate::ops::*;
use crate::prng::{Digest, Rng};
use crate::props::*;
use crate::stubs::*;
use std::collections::BTreeMap;
use std::hash::{Hash, Hasher};
use std::panic::{catch_unwind, AssertUnwindSafe};

#[derive(Clone, Copy, Debug, PartialEq, Eq)]
pub enum Relax {
    /// after an injected panic; `closure` = the panic came from the mutate/retain closure itself
    Panic { closure: bool },
    Forget,
}

pub struct Env {
    pub overhead: usize,
    pub table_align: usize,
}

pub fn detect_env() -> Env {
    ctx_reset();
    let k = SimKey::new(0, 0);
    let v = SimVal::new(0);
    let overhead = lru_mem::entry_size(&k, &v);
    drop(k);
    drop(v);
    assert_eq!(overhead, entry_overhead(), "entry overhead formula does not match lru_mem::entry_size");
    // alignment of the table allocation (Group::WIDTH: 16 with SSE2, 8 in hashbrown's generic
    // implementation, which is what Miri uses): measured by watching the allocator
    alloc::set_tracking(true);
    let mut align = 8;
    alloc::set_min_align(16);
    let before = alloc::big_allocs();
    let c = Cache::with_capacity_and_hasher(0, 4, SimHashBuilder::new(HashMode::Good, 0));
    if alloc::big_allocs() > before {
        align = 16;
    }
    drop(c);
    alloc::set_min_align(align);
    alloc::set_tracking(false);
    ctx_disable();
    Env { overhead, table_align: align }
}

#[derive(Default, Clone, Debug)]
pub struct Probes(pub BTreeMap<&'static str, u64>);

impl Probes {
    pub fn hit(&mut self, k: &'static str) {
        *self.0.entry(k).or_insert(0) += 1;
    }
    pub fn add(&mut self, k: &'static str, n: u64) {
        *self.0.entry(k).or_insert(0) += n;
    }
    pub fn merge(&mut self, o: &Probes) {
        for (k, v) in &o.0 {
            *self.0.entry(k).or_insert(0) += v;
        }
    }
}

pub struct Sim<'e> {
    pub env: &'e Env,
    pub world: World,
    pub tracker: Tracker,
    pub last: [Option<Obs>; 2],
    pub relaxed: Option<Relax>,
    /// property the relaxed-mode findings are attributed to (C16 or C17)
    pub fault_prop: Props,
    pub viols: Vec<Viol>,
    pub steps: usize,
    pub digest: Digest,
    pub decisions: Vec<(Props, u64)>,
    pub probes: Probes,
    pub stop: bool,
    pub fault_fired: Option<&'static str>,
    pub fault_unfired: bool,
    pub check_prefix: bool,
    pub debug_fmt: bool,
    pub state_digests: Vec<u64>,
    /// per fuse kind: callback counts of the last executed step
    pub last_counts: [u32; 6],
    pub last_pred_calls: u32,
    pub last_closure_calls: u32,
    pub acct_broken: bool,
}

pub fn trace_ops() -> bool {
    static ON: std::sync::OnceLock<bool> = std::sync::OnceLock::new();
    *ON.get_or_init(|| std::env::var_os("LRUSIM_TRACE_OPS").is_some())
}

fn op_hash(op: &Op) -> u64 {
    let mut h = std::collections::hash_map::DefaultHasher::new();
    op.hash(&mut h);
    h.finish()
}

fn panic_payload(e: Box<dyn std::any::Any + Send>) -> Outcome {
    if let Some(i) = e.downcast_ref::<Injected>() {
        Outcome::Panicked { injected: Some(i.0), msg: i.0.to_string() }
    } else if let Some(s) = e.downcast_ref::<String>() {
        Outcome::Panicked { injected: None, msg: s.clone() }
    } else if let Some(s) = e.downcast_ref::<&'static str>() {
        Outcome::Panicked { injected: None, msg: s.to_string() }
    } else {
        Outcome::Panicked { injected: None, msg: "non-string panic payload".into() }
    }
}

impl<'e> Sim<'e> {
    pub fn new(env: &'e Env, cfg: Config, fault_prop: Props) -> Sim<'e> {
        ctx_reset();
        alloc::set_tracking(true);
        let mut world = World::new(cfg.clone(), env.table_align);
        // prefill (unchecked)
        if cfg.prefill > 0 {
            let c = world.caches[0].as_mut().unwrap();
            for k in 0..cfg.prefill {
                let _ = c.insert(SimKey::new(k, 0), SimVal::new(cfg.prefill_vh));
                if k % 256 == 255 {
                    clear_events();
                }
            }
        }
        if cfg.marathon > 0 {
            marathon(world.caches[0].as_mut().unwrap(), &cfg, env.overhead);
        }
        clear_events();
        let mut sim = Sim {
            env,
            world,
            tracker: Tracker::default(),
            last: [None, None],
            relaxed: None,
            fault_prop,
            viols: Vec::new(),
            steps: 0,
            digest: Digest::new(),
            decisions: Vec::new(),
            probes: Probes::default(),
            stop: false,
            fault_fired: None,
            fault_unfired: false,
            check_prefix: true,
            debug_fmt: true,
            state_digests: Vec::new(),
            last_counts: [0; 6],
            last_pred_calls: 0,
            last_closure_calls: 0,
            acct_broken: false,
        };
        let cap = sim.world.caches[0].as_ref().unwrap().capacity();
        if cfg.prefill == 0 && cfg.marathon == 0 {
            sim.tracker.new_cache(0, &cfg, cap);
        } else {
            // entries have come and gone already: no with_capacity window; whatever capacity the
            // unchecked phase ended with is the baseline
            let len = sim.world.caches[0].as_ref().unwrap().len();
            sim.tracker.slots[0].peak_len = (cfg.prefill as usize).max(len).max(if cfg.marathon > 0 { cap } else { 0 });
            sim.tracker.slots[0].max_req_cap = cap;
        }
        sim
    }

    pub fn observe_all_pub(&mut self, findings: &mut Vec<(usize, ObsClass, String)>) -> [Option<Obs>; 2] {
        self.observe_all(findings)
    }

    fn observe_all(&mut self, findings: &mut Vec<(usize, ObsClass, String)>) -> [Option<Obs>; 2] {
        let opts = ObsOpts { universe: self.world.cfg.universe, debug_fmt: self.debug_fmt };
        let mut res: [Option<Obs>; 2] = [None, None];
        for t in 0..2 {
            if let Some(c) = &self.world.caches[t] {
                let mut f = Vec::new();
                let o = observe(c, &opts, &mut f);
                for (cl, m) in f {
                    findings.push((t, cl, m));
                }
                res[t] = Some(o);
            }
        }
        clear_events();
        res
    }

    fn push(&mut self, props: Props, class: &'static str, msg: String) {
        if trace_ops() {
            eprintln!("    VIOL [{}] {}: {}", props_names(props), class, msg);
        }
        if self.viols.len() < 64 {
            self.viols.push(Viol { props, class, msg, step: self.steps });
        }
    }

    fn map_findings(&mut self, findings: Vec<(usize, ObsClass, String)>, at_fault_step: bool) {
        for (t, cl, m) in findings {
            if cl == ObsClass::AcctRecordedSum {
                self.acct_broken = true;
            }
            match self.relaxed {
                None => {
                    let (props, class) = obs_props_normal(cl);
                    self.push(props, class, format!("cache {}: {}", t, m));
                }
                Some(r) => {
                    let fp = self.fault_prop;
                    let (hit, class) = match cl {
                        ObsClass::Walk => (true, "walk"),
                        ObsClass::Mirror => (true, "mirror"),
                        ObsClass::Lookup => (true, "lookup"),
                        ObsClass::Token => (true, "dead-token"),
                        ObsClass::AcctRecordedSum => (true, "acct-recorded-sum"),
                        ObsClass::Len => (true, "len"),
                        ObsClass::Dup => (true, "dup"),
                        ObsClass::BoundCur => (matches!(r, Relax::Panic { closure: true }) && at_fault_step, "bound"),
                        _ => (false, ""),
                    };
                    if hit {
                        self.push(fp, class, format!("cache {}: {}", t, m));
                    }
                }
            }
        }
    }

    fn ledger_viols(&mut self, when: &str) {
        let v = take_viol();
        for m in v {
            let props = match self.relaxed {
                None => C06 | C07,
                Some(_) => self.fault_prop,
            };
            self.push(props, "ledger", format!("{}: {}", when, m));
        }
    }

    /// Executes one operation with all oracles. Returns false when the run must stop.
    pub fn step(&mut self, op: &Op) -> bool {
        if self.stop {
            return false;
        }
        let idx = self.steps;
        let t = op.target as usize;
        if idx % 8 == 0 || self.last.iter().flatten().any(|o| o.len > 1024) {
            crate::coord::heartbeat();
        }
        if trace_ops() {
            eprintln!("  step {} {}", idx, fmt_op(op));
        }
        // ---------------- pre-state
        let mut findings = Vec::new();
        let small = self.last.iter().flatten().all(|o| o.len <= 64);
        let pre: [Option<Obs>; 2] = if self.last[0].is_none() || small || idx % 8 == 0 {
            let p = self.observe_all(&mut findings);
            if self.last[0].is_some() && self.relaxed.is_none() && p != self.last {
                // observation is a battery of &self calls: it must not change anything
                let d = match (&self.last[t], &p[t]) {
                    (Some(a), Some(b)) => diff_obs(a, b),
                    _ => String::new(),
                };
                self.push(C19, "observe-not-idempotent", format!("two consecutive observations through &self differ: {}", d));
            }
            p
        } else {
            self.last.clone()
        };
        if self.last[0].is_none() {
            // first observation of the run: report its findings
            self.map_findings(findings, false);
        }
        if pre.iter().flatten().any(|o| o.broken) {
            self.stop = true;
            return false;
        }
        // ---------------- execute
        if !domain_ok(&self.world, op, self.env.overhead) {
            clear_events();
            self.steps += 1;
            self.last = pre;
            return true;
        }
        // Known finding (C16, `stale-size-arith`): a panic in a size estimate inside `mutate` leaves the
        // entry's recorded size different from its real size (the property allows that), and a later
        // mutate of that entry then computes `recorded + growth` / `recorded - shrinkage`, which
        // overflows when the real sizes alone would not.  Builds with overflow checks panic, plain
        // release builds wrap and corrupt the accounting.  The signature is decided BEFORE the
        // operation runs, from the observed pre-state and the operation's arguments alone.
        let stale_arith = match (&self.relaxed, &op.kind, op.fuse) {
            (Some(Relax::Panic { .. }), OpKind::Mutate { k, vh, panic: ClosurePanic::No, .. }, None) => pre[t]
                .as_ref()
                .and_then(|o| o.entries.iter().find(|e| e.id == *k))
                .map(|e| e.recorded != e.size && if *vh > e.vheap { e.recorded.checked_add(*vh - e.vheap).is_none() } else { e.recorded < e.vheap - *vh })
                .unwrap_or(false),
            _ => false,
        };
        begin_step();
        let t0 = n_tokens() as u32;
        let refused0 = alloc::refused_count();
        if let Some((k, n)) = op.fuse {
            arm(k, n);
        }
        // the budget scales with the caches: retain / clone / a rebuild legitimately call back a few
        // times per entry
        let total_len: usize = pre.iter().flatten().map(|o| o.len).sum();
        set_budget(CALLBACK_BUDGET + 64 * total_len);
        let world = &mut self.world;
        let res = catch_unwind(AssertUnwindSafe(|| exec(world, op)));
        set_budget(0);
        let fired = disarm();
        alloc::disarm_refusal();
        let outcome = match res {
            Ok(o) => o,
            Err(e) => panic_payload(e),
        };
        let events = take_events();
        let t1 = n_tokens() as u32;
        let refused = alloc::refused_count() != refused0;
        self.last_counts = counts();
        self.last_pred_calls = events.iter().filter(|e| e.kind == EV_PRED).count() as u32;
        self.last_closure_calls = events.iter().filter(|e| e.kind == EV_CLOSURE).count() as u32;
        self.steps += 1;
        if stale_arith {
            let fp = self.fault_prop;
            let how = match &outcome {
                Outcome::Panicked { injected: None, msg } => format!("the cache's own code panicked: {}", msg),
                _ => "the arithmetic wrapped silently".to_string(),
            };
            self.push(fp, "stale-size-arith", format!("mutate of an entry whose recorded size is stale after an earlier panic in a size estimate: recorded size +/- the change of the value's size is not representable although the real sizes are; {}", how));
            self.probes.hit("stale_size_arithmetic_after_fault");
            self.stop = true;
            clear_events();
            return false;
        }
        if op.fuse.is_some() && !fired {
            self.fault_unfired = true;
        }
        let mut at_fault_step = false;
        match &outcome {
            Outcome::Panicked { injected: Some(name), .. } if *name == BUDGET_EXCEEDED => {
                // the operation kept calling back into user code far beyond anything a terminating
                // operation does: it was cut off by unwinding out of the callback
                let mut props = match self.relaxed {
                    Some(_) => self.fault_prop,
                    None => C07,
                };
                if self.relaxed.is_none() {
                    props |= match &op.kind {
                        OpKind::Retain { .. } => C15,
                        OpKind::IterScript { .. } => C12,
                        OpKind::CloneTo | OpKind::CloneFrom => C14,
                        OpKind::DebugFmt => C05,
                        _ => 0,
                    };
                }
                self.push(props, "does-not-terminate", format!("{} made more than {} callbacks into user code with {} entries held and was cut off (a walk over a cyclic or corrupted list?)", op.kind.name(), CALLBACK_BUDGET + 64 * total_len, total_len));
                self.stop = true;
            }
            Outcome::Panicked { injected: Some(name), .. } => {
                at_fault_step = true;
                self.fault_fired = Some(name);
                let closure = name.starts_with("panic_in_mutate_closure") || name.starts_with("panic_in_retain");
                if self.relaxed.is_none() {
                    self.relaxed = Some(Relax::Panic { closure });
                }
                self.probes.hit(name);
            }
            Outcome::Panicked { injected: None, msg } => {
                let documented = matches!(op.kind, OpKind::Reserve { a } if a >= (1usize << 36));
                if !documented {
                    match self.relaxed {
                        Some(_) => {
                            // After a panic in user code the recorded sizes may legitimately be stale
                            // (the property only promises current_size == sum of *recorded* sizes), so
                            // size arithmetic of a later mutate can overflow in a build with overflow
                            // checks. That is not among the things the property rules out; any other
                            // panic of the cache's own code (unwrap on a missing entry, ...) is.
                            if msg.contains("overflow") {
                                self.probes.hit("stale_size_arithmetic_panic_after_fault_tolerated");
                            } else {
                                let fp = self.fault_prop;
                                self.push(fp, "foreign-panic", format!("{} panicked in the cache's own code after the fault: {}", op.kind.name(), msg));
                            }
                        }
                        None => {
                            let mut props = if msg.contains("overflow") { C02 | C01 } else { C07 | C04 };
                            if matches!(op.kind, OpKind::Mutate { .. }) {
                                props |= C11;
                            }
                            if matches!(op.kind, OpKind::Insert { .. } | OpKind::TryInsert { .. }) {
                                // an insertion must succeed or be rejected with one of the classified errors
                                props |= C10;
                            }
                            self.push(props, "foreign-panic", format!("{} panicked in the cache's own code: {}", op.kind.name(), msg));
                        }
                    }
                } else {
                    self.probes.hit("reserve_documented_panic");
                }
            }
            _ => {}
        }
        let foreign_panic = matches!(&outcome, Outcome::Panicked { injected: None, .. })
            && !matches!(op.kind, OpKind::Reserve { a } if a >= (1usize << 36));
        if let OpKind::IterScript { end: EndMode::Forget, kind, .. } = &op.kind {
            if !matches!(outcome, Outcome::Skipped) {
                at_fault_step = true;
                if self.relaxed.is_none() {
                    self.relaxed = Some(Relax::Forget);
                }
                self.fault_fired = Some("iterator_forgotten");
                self.probes.hit(match kind {
                    IterKind::Iter => "forget_iter",
                    IterKind::Keys => "forget_keys",
                    IterKind::Values => "forget_values",
                    IterKind::Drain => "forget_drain",
                    IterKind::IntoIter => "forget_into_iter",
                    IterKind::IntoKeys => "forget_into_keys",
                    IterKind::IntoValues => "forget_into_values",
                });
            }
        }
        self.ledger_viols("during the operation");

        // ---------------- post-state
        if self.relaxed.is_some() {
            // relaxed mode: the harness drops what it was handed first, so that anything the
            // cache still references shows up as a dead instance in the observation
            self.world.drop_held();
            clear_events();
            self.ledger_viols("when the caller dropped what the operation returned");
        }
        let held: Vec<u32> = self.world.held_k.iter().map(|k| k.tok).chain(self.world.held_v.iter().map(|v| v.tok)).collect();
        let mut findings = Vec::new();
        let post = self.observe_all(&mut findings);
        if op.kind.is_clone() && self.relaxed.is_none() {
            // a clone that is not even a coherent cache (or whose links point into the source)
            // is not "an equal and fully independent cache"
            let o = 1 - t;
            let extra: Vec<(usize, ObsClass, String)> = findings.iter().filter(|f| f.0 == o && matches!(f.1, ObsClass::Walk | ObsClass::Mirror | ObsClass::Token | ObsClass::Lookup | ObsClass::Dup)).cloned().collect();
            for (_, _, m) in extra {
                self.push(C14, "clone-incoherent", format!("the clone is not a coherent cache of its own: {}", m));
            }
        }
        self.map_findings(findings, at_fault_step);
        self.ledger_viols("during observation after the operation");

        // ---------------- oracles
        match self.relaxed {
            None => {
                let step = Step {
                    index: idx,
                    op,
                    pre: &pre,
                    post: &post,
                    outcome: &outcome,
                    events: &events,
                    created: (t0, t1),
                    held: &held,
                    refused,
                    overhead: self.env.overhead,
                    cfg: &self.world.cfg,
                };
                let mut v = Vec::new();
                let dec = check_step(&step, &mut self.tracker, &mut v);
                self.viols.extend(v);
                self.note_step(op, &pre, &post, &outcome, &events, dec.0, refused);
            }
            Some(r) => {
                if at_fault_step {
                    self.check_fault_step(op, &pre, &post, r);
                    let mut d = Digest::new();
                    if let Some(p) = &pre[t] {
                        p.digest(&mut d);
                    }
                    d.u64(op_hash(op));
                    self.decisions.push((self.fault_prop, d.finish()));
                }
            }
        }

        // ---------------- harness drops what it was handed
        self.world.drop_held();
        clear_events();
        self.ledger_viols("when the caller dropped what the operation returned");

        // determinism digest (address-free)
        self.digest.u64(op_hash(op));
        self.digest.u64(outcome_digest(&outcome));
        for o in post.iter().flatten() {
            o.digest_full(&mut self.digest);
        }
        self.digest.usize(events.len());
        if post.iter().flatten().any(|o| o.broken) || foreign_panic || self.acct_broken {
            // the cache's own state can no longer be trusted (an accounting drift can make the
            // eviction loop spin forever): end the run here
            self.stop = true;
        }
        self.last = post;
        !self.stop
    }

    /// Fast execution without observation or oracles (prefix of fault-enumeration traces).
    pub fn step_unchecked(&mut self, op: &Op) {
        if !domain_ok(&self.world, op, self.env.overhead) {
            clear_events();
            self.steps += 1;
            return;
        }
        begin_step();
        let total_len: usize = self.world.caches.iter().flatten().map(|c| c.len()).sum();
        set_budget(CALLBACK_BUDGET + 64 * total_len);
        let world = &mut self.world;
        let _ = catch_unwind(AssertUnwindSafe(|| exec(world, op)));
        set_budget(0);
        disarm();
        alloc::disarm_refusal();
        self.last_counts = counts();
        self.world.drop_held();
        clear_events();
        self.steps += 1;
        self.last = [None, None];
    }

    fn check_fault_step(&mut self, op: &Op, pre: &[Option<Obs>; 2], post: &[Option<Obs>; 2], r: Relax) {
        let t = op.target as usize;
        let fp = self.fault_prop;
        if let Relax::Panic { closure: true } = r {
            if let (Some(a), Some(b)) = (&pre[t], &post[t]) {
                if b.broken {
                    return;
                }
                // no entry other than those the predicate already rejected has been lost
                let rejected: Vec<u32> = match &op.kind {
                    OpKind::Retain { keep, panic_at } => {
                        let upto = panic_at.map(|x| x as usize).unwrap_or(0);
                        a.entries.iter().enumerate().filter(|(i, _)| *i < upto && !keep.get(*i).copied().unwrap_or(true)).map(|(_, e)| e.id).collect()
                    }
                    _ => Vec::new(),
                };
                let lost: Vec<u32> = a.entries.iter().filter(|e| !rejected.contains(&e.id) && b.find(e.id).is_none()).map(|e| e.id).collect();
                if !lost.is_empty() {
                    self.push(fp, "closure-panic-lost-entries", format!("{}: after the closure panicked keys {:?} are gone (already rejected: {:?})", op.kind.name(), lost, rejected));
                }
            }
        }
        // (a panicking clone() that changes its source is a C19 matter, not one of the things C16 lists;
        // corruption of the source is caught by the structural findings above)
    }

    #[allow(clippy::too_many_arguments)]
    fn note_step(&mut self, op: &Op, pre: &[Option<Obs>; 2], post: &[Option<Obs>; 2], outcome: &Outcome, events: &[Ev], mut dec: Props, refused: bool) {
        let t = op.target as usize;
        let (a, b) = match (&pre[t], &post[t]) {
            (Some(a), Some(b)) => (a, b),
            _ => return,
        };
        let realloc = a.table_ptr() != b.table_ptr() || a.buckets() != b.buckets();
        let list_changed = a.entries.iter().map(|e| e.ktok).ne(b.entries.iter().map(|e| e.ktok));
        if realloc || list_changed {
            dec |= C07;
        }
        if realloc {
            dec |= C04 | C05 | C06;
        }
        // probes
        let departed = {
            let mut post_k: Vec<u32> = b.entries.iter().map(|q| q.ktok).collect();
            post_k.sort_unstable();
            a.entries.iter().filter(|e| post_k.binary_search(&e.ktok).is_err()).count()
        };
        let tomb_before = a.cap < full_capacity(a.buckets());
        if tomb_before {
            self.probes.hit("tombstones_present");
        }
        match &op.kind {
            OpKind::Insert { k, kh, vh } | OpKind::TryInsert { k, kh, vh } => {
                let sz = (self.env.overhead + kh + vh) as u128;
                let free = (a.max as u128).saturating_sub(a.cur as u128);
                let credit = a.find(*k).map(|i| a.entries[i].size as u128).unwrap_or(0);
                let is_insert = matches!(op.kind, OpKind::Insert { .. });
                let room = if is_insert { free + credit } else { free };
                if sz == room {
                    self.probes.hit("exact_fit_insert");
                }
                if sz == room + 1 {
                    self.probes.hit("one_byte_over_insert");
                }
                if sz == a.max as u128 {
                    self.probes.hit("insert_size_eq_max");
                }
                if sz == a.max as u128 + 1 {
                    self.probes.hit("insert_size_max_plus_1");
                }
                if is_insert && departed >= 2 + (credit > 0) as usize {
                    self.probes.hit("multi_eviction_in_one_op");
                }
                if credit > 0 && is_insert {
                    if sz > credit {
                        self.probes.hit("replace_by_larger");
                    } else if sz < credit {
                        self.probes.hit("replace_by_smaller");
                    }
                }
                if realloc {
                    self.probes.hit("realloc_during_insert");
                    if matches!(self.world.cfg.mode, HashMode::Const) {
                        self.probes.hit("realloc_with_const_hasher");
                    }
                    if b.buckets() < a.buckets() {
                        self.probes.hit("growth_that_shrinks_table");
                    }
                    if b.buckets() == a.buckets() {
                        self.probes.hit("growth_same_bucket_count");
                    }
                }
                if let Outcome::TryInsertErr { .. } = outcome {
                    let n = (sz > a.max as u128) as u32 + (sz > free) as u32 + (credit > 0) as u32;
                    if n == 2 {
                        self.probes.hit("try_insert_two_failure_conditions");
                    }
                    if n == 3 {
                        self.probes.hit("try_insert_three_failure_conditions");
                    }
                }
            }
            OpKind::Mutate { k, vh, .. } => {
                if let Some(i) = a.find(*k) {
                    let e = &a.entries[i];
                    let ns = e.size.saturating_sub(e.vheap) as u128 + *vh as u128;
                    if ns > a.max as u128 {
                        self.probes.hit("mutate_overflow");
                        if a.len == 1 {
                            self.probes.hit("mutate_only_entry_beyond_limit");
                        }
                    } else if ns > e.size as u128 {
                        if i == 0 && a.len > 1 {
                            self.probes.hit("grow_the_lru_entry");
                        }
                        if departed >= 1 {
                            self.probes.hit("mutate_growth_evicts");
                        }
                        if departed >= 2 {
                            self.probes.hit("mutate_growth_evicts_2plus");
                        }
                        if a.cur.saturating_sub(e.size) as u128 + ns == a.max as u128 {
                            self.probes.hit("mutate_exact_fit");
                        }
                    } else if ns < e.size as u128 {
                        self.probes.hit("mutate_shrink");
                    } else {
                        self.probes.hit("mutate_no_change");
                    }
                } else {
                    self.probes.hit("mutate_absent");
                }
            }
            OpKind::SetMaxSize { m } => {
                if *m < a.cur {
                    self.probes.hit("limit_lowered_below_current");
                }
                if *m == a.cur {
                    self.probes.hit("limit_set_to_current");
                }
            }
            OpKind::Retain { .. } => {
                if a.entries.len() >= 2 && b.find(a.entries[0].id).is_none() && b.find(a.entries[a.entries.len() - 1].id).is_none() {
                    self.probes.hit("retain_removes_both_ends");
                }
                if departed == a.len && a.len > 0 {
                    self.probes.hit("retain_removes_all");
                }
            }
            OpKind::TryReserve { a: add, .. } => {
                if refused {
                    self.probes.hit("allocator_refusal_fired");
                }
                if let Outcome::Reserve(Err(c)) = outcome {
                    if !refused {
                        if *c == 0 {
                            self.probes.hit("try_reserve_capacity_overflow");
                        } else {
                            self.probes.hit("try_reserve_natural_alloc_failure");
                        }
                    }
                }
                let _ = add;
                if realloc {
                    self.probes.hit("realloc_by_try_reserve");
                }
            }
            OpKind::Reserve { .. } => {
                if realloc {
                    self.probes.hit("realloc_by_reserve");
                }
            }
            OpKind::ShrinkTo { .. } | OpKind::ShrinkToFit => {
                if realloc {
                    self.probes.hit("realloc_by_shrink");
                    if tomb_before {
                        self.probes.hit("shrink_with_tombstones");
                    }
                }
            }
            OpKind::CloneTo | OpKind::CloneFrom => {
                if tomb_before {
                    self.probes.hit("clone_with_tombstones");
                }
            }
            OpKind::IterScript { script, kind, .. } => {
                if script.len() >= a.len && a.len >= 2 && script.iter().any(|&f| f) && script.iter().any(|&f| !f) {
                    self.probes.hit("iter_cursors_meet_mixed");
                }
                if script.len() > a.len {
                    self.probes.hit("iter_called_past_exhaustion");
                }
                if !kind.borrowing() && script.len() < a.len {
                    self.probes.hit("owning_iter_dropped_with_remainder");
                }
            }
            _ => {}
        }
        let _ = events;
        // decision digests
        if dec != 0 {
            let mut d = Digest::new();
            a.digest(&mut d);
            d.u64(op_hash(op));
            self.decisions.push((dec, d.finish()));
        }
        let mut sd = Digest::new();
        b.digest(&mut sd);
        self.state_digests.push(sd.finish());
    }

    /// Drops everything and closes the ledger. Returns the number of leaked instances.
    pub fn finish(&mut self) -> usize {
        begin_step();
        let w = &mut self.world;
        let r = catch_unwind(AssertUnwindSafe(|| {
            w.caches[0] = None;
            w.caches[1] = None;
            w.drop_held();
        }));
        if let Err(e) = r {
            if let Outcome::Panicked { msg, .. } = panic_payload(e) {
                let props = if self.relaxed.is_some() { self.fault_prop } else { C06 | C07 };
                self.push(props, "panic-in-drop", format!("dropping the cache panicked: {}", msg));
            }
        }
        clear_events();
        self.ledger_viols("when the caches were dropped");
        let leaked = live_tokens();
        if !leaked.is_empty() && self.relaxed.is_none() {
            self.push(C06, "never-dropped", format!("{} instances were never dropped nor handed back, e.g. #{}", leaked.len(), leaked[0]));
        }
        alloc::set_tracking(false);
        leaked.len()
    }
}

/// "However long the history": more than 2^20 unchecked churn operations (FIFO insertions of ever-new
/// keys that evict, growing and shrinking mutates of recent entries — a growth of a full cache evicts —
/// and promotions), derived from the configuration's salt.  Whatever damage they do must show in the
/// checked history that follows (structure, accounting, ledger).
fn marathon(c: &mut Cache, cfg: &Config, overhead: usize) {
    let mut rng = Rng::new(cfg.salt ^ 0x6d61_7261);
    let vh = cfg.prefill_vh;
    let k = (cfg.max_size / (overhead + vh).max(1)).clamp(1, 4096);
    let mut recent: Vec<u32> = Vec::with_capacity(k);
    let mut next_id: u32 = 50_000_000;
    // share of the evictions that happen inside a growing `mutate` rather than inside `insert`
    let mutate_pct = *rng.pick(&[15u64, 50, 85]);
    let r = catch_unwind(AssertUnwindSafe(|| {
        let mut i = 0u32;
        while i < cfg.marathon {
            if recent.len() >= k.min(4) && rng.below(100) < mutate_pct {
                // grow an entry of the full cache (evicts the LRU entry inside mutate), shrink it
                // back, refill the freed room with a new key (no eviction)
                let id = recent[rng.usize_below(recent.len())];
                let _ = c.mutate(&KeyId(id), |v| v.heap = vh + 8);
                let _ = c.mutate(&KeyId(id), |v| v.heap = vh);
                next_id += 1;
                let _ = c.insert(SimKey::new(next_id, 0), SimVal::new(vh));
                recent.push(next_id);
                i += 3;
            } else if rng.below(8) == 0 && !recent.is_empty() {
                let id = recent[rng.usize_below(recent.len())];
                let _ = c.get(&KeyId(id));
                i += 1;
            } else {
                // plain FIFO insertion: evicts the LRU entry inside insert once the cache is full
                next_id += 1;
                let _ = c.insert(SimKey::new(next_id, 0), SimVal::new(vh));
                recent.push(next_id);
                i += 1;
            }
            if recent.len() > 2 * k + 8 {
                // keep only ids that are probably still present (the newest k)
                let cut = recent.len() - k;
                recent.drain(..cut);
            }
            if i % 512 < 3 {
                clear_events();
                crate::coord::heartbeat();
            }
        }
    }));
    let _ = r;
    clear_events();
    // ledger violations noticed during the marathon stay queued: the first checked step reports them
}

fn outcome_digest(o: &Outcome) -> u64 {
    let mut d = Digest::new();
    match o {
        Outcome::Skipped => d.u64(1),
        Outcome::Unit => d.u64(2),
        Outcome::Bool(b) => d.u64(3 + *b as u64),
        Outcome::InsertOk(r) => {
            d.u64(5);
            d.u64(r.as_ref().map(|v| v.tok as u64 + 1).unwrap_or(0));
        }
        Outcome::InsertErr { k, v, entry_size, max_size } => {
            d.u64(6);
            d.u64(k.tok as u64);
            d.u64(v.tok as u64);
            d.usize(*entry_size);
            d.usize(*max_size);
        }
        Outcome::TryInsertOk => d.u64(7),
        Outcome::TryInsertErr { variant, k, v, entry_size, max_size, free_memory, .. } => {
            d.u64(8 + variant.clone() as u64);
            d.u64(k.tok as u64);
            d.u64(v.tok as u64);
            d.usize(entry_size.unwrap_or(0));
            d.usize(max_size.unwrap_or(0));
            d.usize(free_memory.unwrap_or(0));
        }
        Outcome::ValRef(r) => {
            d.u64(12);
            d.u64(r.map(|r| r.0 as u64 + 1).unwrap_or(0));
        }
        Outcome::EntryRef(r) => {
            d.u64(13);
            d.u64(r.map(|r| ((r.0 as u64) << 32 | r.1 as u64) + 1).unwrap_or(0));
        }
        Outcome::RemovedVal(r) => {
            d.u64(14);
            d.u64(r.as_ref().map(|v| v.tok as u64 + 1).unwrap_or(0));
        }
        Outcome::RemovedEntry(r) => {
            d.u64(15);
            d.u64(r.as_ref().map(|(k, v)| ((k.tok as u64) << 32 | v.tok as u64) + 1).unwrap_or(0));
        }
        Outcome::MutateOk(r) => {
            d.u64(16);
            d.u64(r.map(|r| r.0 + 1).unwrap_or(0));
        }
        Outcome::MutateErr { k, v, old_entry_size, new_entry_size, max_size } => {
            d.u64(17);
            d.u64(k.tok as u64);
            d.u64(v.tok as u64);
            d.usize(*old_entry_size);
            d.usize(*new_entry_size);
            d.usize(*max_size);
        }
        Outcome::Reserve(r) => d.u64(18 + match r {
            Ok(()) => 0,
            Err(c) => 1 + *c as u64,
        }),
        Outcome::Iter(items) => {
            d.u64(22);
            for it in items {
                match it {
                    IterItem::None => d.u64(0),
                    IterItem::Count(c) => d.u64(0xC0 + *c as u64),
                    IterItem::Pair { ktok, vtok, .. } => d.u64(((*ktok as u64) << 32 | *vtok as u64) + 1),
                    IterItem::Key { ktok, .. } => d.u64(*ktok as u64 + 1),
                    IterItem::Val { vtok, .. } => d.u64(*vtok as u64 + 1),
                }
            }
        }
        Outcome::Getters { len, cur, max, cap, .. } => {
            d.u64(23);
            d.usize(*len);
            d.usize(*cur);
            d.usize(*max);
            d.usize(*cap);
        }
        Outcome::Debug(s) => {
            d.u64(24);
            d.bytes(s.as_bytes());
        }
        Outcome::Cloned => d.u64(25),
        Outcome::Panicked { injected, msg } => {
            d.u64(26 + injected.is_some() as u64);
            d.bytes(msg.as_bytes());
        }
    }
    d.finish()
}

pub struct RunOut {
    pub viols: Vec<Viol>,
    pub steps: usize,
    pub digest: u64,
    pub decisions: Vec<(Props, u64)>,
    pub probes: Probes,
    pub state_digests: Vec<u64>,
    pub leaks: usize,
    pub fault_fired: Option<&'static str>,
    pub fault_unfired: bool,
}

impl<'e> Sim<'e> {
    pub fn into_out(mut self) -> RunOut {
        let leaks = self.finish();
        RunOut {
            viols: std::mem::take(&mut self.viols),
            steps: self.steps,
            digest: self.digest.finish(),
            decisions: std::mem::take(&mut self.decisions),
            probes: std::mem::take(&mut self.probes),
            state_digests: std::mem::take(&mut self.state_digests),
            leaks,
            fault_fired: self.fault_fired,
            fault_unfired: self.fault_unfired,
        }
    }
}

/// Generates and executes one fault-free run from a seed; returns the concrete trace too.
pub fn run_generated(env: &Env, prop: &str, thorough: bool, verif_seed: u64, run_index: u64, run_seed: u64) -> (Trace, RunOut) {
    let mut rng = Rng::new(run_seed);
    let prof = profile_for(prop, thorough);
    let (mut cfg, mut gs, steps) = gen_config(&mut rng, &prof, env.overhead);
    let steps = if cfg!(miri) { steps.min(30) } else { steps };
    if cfg!(miri) {
        cfg.prefill = cfg.prefill.min(40);
    }
    let mut sim = Sim::new(env, cfg.clone(), 0);
    if cfg.marathon > 0 {
        sim.probes.hit("marathon_runs_over_2pow20_unchecked_ops");
    }
    if cfg.prefill > 60_000 {
        sim.probes.hit("giant_cache_runs_over_2pow16_entries");
    }
    if cfg.mode == HashMode::Rekey {
        sim.probes.hit("runs_with_rekeying_hasher_clone");
    }
    let mut ops: Vec<Op> = Vec::with_capacity(steps + 8);
    // initial observation happens inside the first step; the generator needs one before that
    {
        let mut f = Vec::new();
        sim.last = sim.observe_all(&mut f);
        sim.map_findings(f, false);
    }
    for _ in 0..steps {
        if sim.stop {
            break;
        }
        let op = gen_op(&mut rng, &mut gs, &cfg, &sim.last, env.overhead);
        let pre_ids: Vec<u32> = sim.last[op.target as usize].as_ref().map(|o| o.ids()).unwrap_or_default();
        sim.step(&op);
        // remember departed keys for "last removed / last evicted" arguments
        if let Some(post) = &sim.last[op.target as usize] {
            let mut post_ids = post.ids();
            post_ids.sort_unstable();
            for id in pre_ids {
                if post_ids.binary_search(&id).is_err() {
                    if gs.recent_gone.len() >= 4 {
                        gs.recent_gone.remove(0);
                    }
                    gs.recent_gone.push(id);
                }
            }
        }
        ops.push(op);
    }
    if !sim.stop {
        let td = gen_teardown(&mut rng, &sim.last);
        for op in td {
            if sim.stop {
                break;
            }
            sim.step(&op);
            ops.push(op);
        }
    }
    let out = sim.into_out();
    let trace = Trace {
        property: prop.to_string(),
        violation: None,
        message: None,
        verif_seed,
        run_index,
        run_seed,
        mode: "normal".into(),
        config: cfg,
        ops,
        sanitizer: None,
        tier: None,
        build: Some(crate::coord::build_variant().into()),
    };
    (trace, out)
}

/// Replays a concrete trace with all oracles (fault-free prefix checked as well).
pub fn run_trace(env: &Env, trace: &Trace, fault_prop: Props) -> RunOut {
    let mut sim = Sim::new(env, trace.config.clone(), fault_prop);
    // same initial observation as a generated run, so that generation and replay are one path
    {
        let mut f = Vec::new();
        sim.last = sim.observe_all(&mut f);
        sim.map_findings(f, false);
    }
    for op in &trace.ops {
        if !sim.step(op) {
            break;
        }
    }
    sim.into_out()
}

/// Replays a trace whose only fault is on op `fault_at`; the prefix before it is executed without
/// oracles (it is the fault-free base history, which was checked when it was generated).
pub fn run_fault_trace(env: &Env, cfg: &Config, ops: &[Op], fault_at: usize, fault_prop: Props) -> RunOut {
    let mut sim = Sim::new(env, cfg.clone(), fault_prop);
    sim.debug_fmt = false;
    for (i, op) in ops.iter().enumerate() {
        if i < fault_at {
            sim.step_unchecked(op);
        } else if !sim.step(op) {
            break;
        }
    }
    sim.into_out()
}
