#!/usr/bin/env python3
"""eval_mutant.py <prop> <letter> <needs text> <check props...>
confirm in the scratch worktree, run the listed quick checks against /repo with the patch applied, undo, store under /verif/seeded/."""
import sys, os, json, shutil, subprocess, re
prop, letter, needs = sys.argv[1:4]
checks = sys.argv[4:]
wt = os.environ.get("MUT_WT") or f"/tmp/mut/{prop}"
conf = subprocess.run(["/verif/tools/confirm_mutant.sh", wt, letter], capture_output=True, text=True).stdout.strip().splitlines()[-1]
print(conf)
ok = re.search(r"baseline-with-mutant: \d+ passed 0 failed", conf) and "demo-with-mutant: test result: FAILED" in conf and "demo-without: test result: ok" in conf
# demo that crashes (no 'test result' line) also counts as failing with the mutant
if not ok and re.search(r"baseline-with-mutant: \d+ passed 0 failed", conf) and "demo-without: test result: ok" in conf and "demo-with-mutant:  |" in conf:
    ok = True
    conf += "  (demo crashed with the mutant)"
if not ok:
    print("NOT CONFIRMED"); sys.exit(1)
out = subprocess.run(["/verif/tools/try_mutant.sh", f"{wt}/_out/{letter}.diff"] + checks, capture_output=True, text=True, errors="replace").stdout
print(out)
caught, missed, lines = [], [], {}
cur = None
for l in out.splitlines():
    m = re.match(r"== (C\d+) exit=(\d+)", l)
    if m:
        cur = m.group(1)
        (caught if m.group(2) == "1" else missed).append(cur)
        lines[cur] = []
    elif cur and l.startswith("violation"):
        lines[cur].append(l)
dst = f"/verif/seeded/{prop}-{os.environ.get('MUT_TAG','')}{letter}"
os.makedirs(dst, exist_ok=True)
shutil.copy(f"{wt}/_out/{letter}.diff", f"{dst}/patch.diff")
shutil.copy(f"{wt}/_out/demo_{letter}.rs", f"{dst}/demo.rs")
notes = open(f"{wt}/_out/notes.md").read() if os.path.exists(f"{wt}/_out/notes.md") else ""
json.dump({
  "breaks_property": prop,
  "origin": "independent sub-agent given only the property text and a scratch worktree of /repo",
  "needs_to_manifest": needs,
  "confirmed": conf,
  "ran": ["tools/confirm_mutant.sh (scratch worktree)", "tools/try_mutant.sh patch.diff " + " ".join(checks)],
  "caught_by_quick_checks": caught,
  "not_caught_by": missed,
  "first_violations": lines,
  "agent_notes": notes,
}, open(f"{dst}/meta.json", "w"), indent=1)
print("kept", dst, "caught", caught, "missed", missed)
