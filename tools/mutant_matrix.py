#!/usr/bin/env python3
"""mutant_matrix.py [ids...]: for every seeded change, apply it to /repo, run the quick check of the property it
breaks (and, if that one stays silent, the other checks recorded as catching it), undo it. Prints one line per
change and a summary; writes /verif/seeded/MATRIX.json. /repo must be clean and otherwise idle."""
import json, os, subprocess, sys, re, time
os.chdir('/verif')
ids = sys.argv[1:] or sorted(d for d in os.listdir('seeded') if os.path.isfile(f'seeded/{d}/meta.json'))
controls = {'own-C02-remove-noacct', 'own-C12-nextback'}
res = {}
assert subprocess.run(['git','-C','/repo','diff','--quiet']).returncode == 0, '/repo has uncommitted changes'
for i in ids:
    meta = json.load(open(f'seeded/{i}/meta.json'))
    prop = meta['breaks_property']
    order = [prop] + [re.match(r'C\d+', c).group(0) for c in (meta.get('caught_by_quick_checks') or []) if re.match(r'C\d+', c) and not c.startswith(prop)]
    if i in controls:
        order = [prop]
    subprocess.check_call(['git','-C','/repo','apply',f'/verif/seeded/{i}/patch.diff'])
    caught = None; codes = {}
    try:
        for p in order:
            t0 = time.time()
            r = subprocess.run(['./check', p, 'quick'], capture_output=True, text=True, errors='replace')
            codes[p] = r.returncode
            if r.returncode == 1 and 'VIOLATION property=' + p in r.stdout:
                m = re.search(r'^violation \[(C\d+)\] (\S+)', r.stdout, re.M)
                caught = (p, m.group(2) if m else '?', round(time.time() - t0, 1))
                break
            if r.returncode == 2:
                caught = (p, 'HARNESS-ERROR', 0); break
    finally:
        subprocess.check_call(['git','-C','/repo','checkout','--','.'])
        subprocess.run('find /verif/replays -name "*.json" -delete', shell=True)
    res[i] = {'breaks': prop, 'caught': caught, 'exit_codes': codes}
    tag = 'control (must stay silent)' if i in controls else ''
    print(f"{i:40s} {prop}  ->  {caught}  {codes} {tag}", flush=True)
json.dump(res, open('seeded/MATRIX.json', 'w'), indent=1)
bad = [i for i, r in res.items() if (i in controls) != (r['caught'] is None) or (r['caught'] and r['caught'][1] == 'HARNESS-ERROR')]
print('SUMMARY:', len(res), 'changes;', 'unexpected:', bad)
