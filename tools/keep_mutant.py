#!/usr/bin/env python3
"""keep_mutant.py <prop> <letter> <caught_by_csv> <missed_by_csv|-> : store a confirmed seeded change under /verif/seeded/<prop>-<letter>/"""
import sys, os, json, shutil, re
prop, letter, caught, missed = sys.argv[1:5]
src = f"/tmp/mut/{prop}/_out"
dst = f"/verif/seeded/{prop}-{letter}"
os.makedirs(dst, exist_ok=True)
shutil.copy(f"{src}/{letter}.diff", f"{dst}/patch.diff")
shutil.copy(f"{src}/demo_{letter}.rs", f"{dst}/demo.rs")
notes = open(f"{src}/notes.md").read() if os.path.exists(f"{src}/notes.md") else ""
meta = {
  "breaks_property": prop,
  "origin": "independent sub-agent given only the property text and a scratch worktree",
  "needs_to_manifest": sys.argv[5] if len(sys.argv) > 5 else "",
  "confirmed": "tools/confirm_mutant.sh in the scratch worktree: baseline suite green with the change, demo fails with it and passes without it",
  "ran": [f"tools/try_mutant.sh seeded/{prop}-{letter}/patch.diff " + " ".join((caught + ("," + missed if missed != "-" else "")).split(","))],
  "caught_by_quick_checks": [c for c in caught.split(",") if c],
  "not_caught_by": [] if missed == "-" else missed.split(","),
  "agent_notes": notes,
}
json.dump(meta, open(f"{dst}/meta.json", "w"), indent=1)
print("kept", dst)
