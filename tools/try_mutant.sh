#!/bin/bash
# try_mutant.sh <diff> <prop>...   apply the mutant to /repo, run the quick checks, undo it.
set -u
diff="$1"; shift
cd /repo || exit 2
git diff --quiet || { echo "/repo has uncommitted changes"; exit 2; }
git apply "$diff" || { echo "apply failed"; exit 2; }
trap 'git -C /repo checkout -- . ' EXIT
cd /verif
for p in "$@"; do
  out=$(./check "$p" quick 2>&1); code=$?
  v=$(echo "$out" | grep -E "^violation" | head -2 | cut -c1-230)
  echo "== $p exit=$code $(echo "$out" | grep -c '^VIOLATION') violation(s)"
  [ -n "$v" ] && echo "$v"
  [ $code -ge 2 ] && echo "$out" | tail -5
done
find /verif/replays -name '*.json' -newer "$diff" -delete 2>/dev/null
exit 0
