#!/bin/bash
# Replays every minimised trace of a repaired defect; on the repaired tree each must end with
# "NOT REPRODUCED" (exit 0). A replay that reproduces means the defect is back.
cd "$(dirname "$0")/.." || exit 2
bad=0
for f in regressions/*.json; do
  out=$(./check --replay "$f" 2>&1); code=$?
  if [ $code -ne 0 ] || ! echo "$out" | grep -q "NOT REPRODUCED"; then
    bad=$((bad+1)); echo "REGRESSION: $f (exit $code)"; echo "$out" | tail -3
  else
    echo "ok   $f"
  fi
done
[ $bad -eq 0 ]
