#!/bin/bash
# seed_sweep.sh <first> <last> [props...]: run every quick check under VERIF_SEED=first..last on the
# current tree; prints one line per (seed, property) that is not silent. Used to show the checks do
# not cry wolf on the unchanged tree.
first=$1; last=$2; shift 2
props=${@:-C01 C02 C03 C04 C05 C06 C07 C09 C10 C11 C12 C13 C14 C15 C16 C17 C19 C20}
bad=0; n=0
for s in $(seq $first $last); do
  for p in $props; do
    out=$(LRUSIM_NO_MIRI=1 VERIF_SEED=$s ./check $p quick 2>&1); code=$?
    n=$((n+1))
    if [ $code -ne 0 ] || echo "$out" | grep -q "^VIOLATION"; then
      bad=$((bad+1)); echo "seed $s $p exit=$code"; echo "$out" | grep -E "^violation|harness" | head -3
    fi
  done
  echo "seed $s done ($n checks so far, $bad not silent)"
done
echo "SWEEP: $n checks, $bad not silent"
