#!/bin/bash
# confirm_mutant.sh <worktree> <a|b>
# Confirms, in the scratch worktree, that the mutant (1) applies, (2) passes the baseline suite,
# (3) makes its demo fail, and (4) that the demo passes without it.
set -u
wt="$1"; m="$2"
cd "$wt" || exit 2
export CARGO_NET_OFFLINE=true
git checkout -q -- src 2>/dev/null; rm -f tests/demo_*.rs
git apply "_out/$m.diff" || { echo "RESULT apply-failed"; exit 1; }
base=$(cargo test --offline --no-fail-fast 2>&1 | grep -E "^test result" | awk '{p+=$4; f+=$6} END {print p" passed "f" failed"}')
cp "_out/demo_$m.rs" "tests/demo_$m.rs"
with=$(cargo test --offline --test "demo_$m" 2>&1 | grep -E "^test result" | tail -1)
git checkout -q -- src
without=$(cargo test --offline --test "demo_$m" 2>&1 | grep -E "^test result" | tail -1)
rm -f "tests/demo_$m.rs"
echo "RESULT baseline-with-mutant: $base | demo-with-mutant: $with | demo-without: $without"
