#!/bin/bash
# Every simulation check against every behaviour-preserving refactoring in seeded/benign: all must stay silent.
cd "$(dirname "$0")/.." || exit 2
bad=0; n=0
for d in seeded/benign/*.diff seeded/benign2/*.diff seeded/benign3/*.diff; do
  out=$(LRUSIM_NO_MIRI=1 tools/try_mutant.sh "$PWD/$d" C01 C02 C03 C04 C05 C06 C07 C10 C11 C12 C13 C14 C15 C16 C17 C19 C20 2>&1)
  k=$(echo "$out" | grep -c "^== ")
  b=$(echo "$out" | grep -E "exit=[12]" | wc -l)
  n=$((n+k)); bad=$((bad+b))
  echo "$d: $k checks, $b not silent"; echo "$out" | grep -E "exit=[12]|^violation|harness" | head -5
done
echo "BENIGN: $n check runs, $bad not silent"
[ $bad -eq 0 ]
